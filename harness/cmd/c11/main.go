// C11 — type checking gives the same verdict under any parallel schedule.
// Engine E1: checker.CheckSource runs under the controlled scheduler; the goroutines, semaphore channel,
// diagnostics mutex and concurrent containers used by parallel method/macro body checking
// (concurrent/*.go, position/diagnostic/diagnostic.go, types/checker/checker.go — instrumented from /repo's
// working tree) are scheduling points. Schedules of the body-checking phase (concurrent.Foreach) are
// enumerated up to a preemption bound for several MethodCheckConcurrencyLimit values; the diagnostics
// and the behaviour of the compiled program must be identical in all of them.
package main

import (
	"encoding/json"
	"fmt"
	"os"
	"sort"
	"strings"
	"time"

	"github.com/elk-language/elk/bitfield"
	"github.com/elk-language/elk/types/checker"
	"github.com/elk-language/elk/verifrt"
	"github.com/elk-language/elk/vm"

	"verifharness/elkrun"
	"verifharness/engine"
	"verifharness/sched"
)

type prog struct{ name, src string }

var progs = []prog{
	{"mutual-calls-with-locals", `
def c11a(n: Int): Int
  x := c11b(n)
  y := c11c(x)
  x + y
end
def c11b(n: Int): Int
  z := n + 1
  z
end
def c11c(n: Int): Int
  w := c11b(n)
  w * 2
end
println(c11a(3))
`},
	{"callee-first", `
def c11d(n: Int): Int then n + 1
def c11e(n: Int): Int
  v := c11d(n)
  v + c11d(v)
end
println(c11e(1))
`},
	{"diagnostics-in-two-bodies", `
def c11f(n: Int): Int
  n + "s"
end
def c11g(n: Int): String
  n
end
def c11h(n: Int): Int then n
println(c11h(1))
`},
	{"diagnostic-and-valid", `
def c11i(n: Int): Int
  q := c11j(n)
  q
end
def c11j(n: Int): Int then undefined_name_c11
println(1)
`},
	{"same-new-symbols", `
def c11k: Symbol then :fresh_symbol_c11
def c11l: Symbol then :fresh_symbol_c11
def c11m: Symbol then :other_fresh_symbol_c11
println(c11k() == c11l(), " ", c11k() == c11m())
`},
	{"method-used-in-constant", `
def c11n: Int
  t := c11o()
  t + 1
end
def c11o: Int then 41
const C11_CONST = c11n()
println(C11_CONST)
`},
	{"three-methods-used-in-constants", `
const C11K1: Int = Foo11.k1
const C11K2: Int = Foo11.k2
const C11K3: Int = Foo11.k3
module Foo11
  def k1: Int
    C11K1
  end
  def k2: Int
    C11K2
  end
  def k3: Int
    C11K3
  end
end
println(1)
`},
	{"class-methods", `
class C11Foo
  attr n: Int
  init(@n: Int); end
  def incr: Int
    t := self.twice()
    @n = t + 1
    @n
  end
  def twice: Int
    u := @n * 2
    u
  end
end
f := C11Foo(2)
println(f.incr, " ", f.twice)
`},
	{"closures-and-throws", `
def c11p(n: Int): Int ! :neg
  throw :neg if n < 0
  f := |x: Int|: Int -> x + n
  f.(1)
end
def c11q(n: Int): Int
  r := do
    c11p(n)
  catch :neg
    -1
  end
  r
end
println(c11q(2), " ", c11q(-2))
`},
	{"macro-and-methods", `
using Std::Elk::AST::*
macro c11_inc(x: IntLiteralNode)
  quote
    1 + !{x}
  end
end
macro c11_dbl(x: IntLiteralNode)
  quote
    2 * !{x}
  end
end
def c11r: Int
  a := c11_inc!(3)
  a
end
def c11s: Int
  b := c11_dbl!(4)
  b + c11r()
end
println(c11s())
`},
}

var limits = []int{1, 2, 3, 100}
var caseBudget = 60 * time.Second

func main() {
	engine.Main(&engine.Spec{
		Prop:  "C11",
		Level: "model_checking",
		Rule: "10 programs with 2-4 colliding method bodies (mutual calls with locals, callee-first, diagnostics in several bodies, same new symbol in two bodies, method used in a constant, three methods each called in a constant's initialiser, class methods, closures and throws, macros plus methods) x MethodCheckConcurrencyLimit in {1,2,3,100}; for each, every schedule of the parallel body-checking phase (concurrent.Foreach: goroutine starts, semaphore channel, diagnostics mutex, concurrent containers, plus a point before every statement of position/diagnostic/diagnostic.go, concurrent/slice.go and concurrent/map.go) with at most B preemptions (quick 1, thorough 2) is executed on the real checker+compiler, then the compiled program runs on the VM; " +
			"oracle: the sorted diagnostic set and the program's stdout/result are identical to the sequential (limit 1, default schedule) outcome, no deadlock, no host panic; non-trivial = (program, limit) pairs with at least 20 schedules",
		Assume:      []string{"only the body-checking phase branches; import parsing before it runs under a fixed deterministic schedule", "unsynchronised accesses between scheduling points are invisible to the explorer: the clause 'checking is free of data races' is covered by the supplementary free-running pass under Go's race detector (case racepass/programs: the same 10 programs x limits {2,3,100} x 10 (thorough 100) rounds on the uninstrumented checker); symbol interning is C26's subject"},
		CaseTimeout: 15 * time.Minute,
		Setup: func(c *engine.Ctx) {
			elkrun.Init()
		},
		Run: func(c *engine.Ctx) {
			bound := 1
			if c.Thorough {
				bound = 2
				caseBudget = 8 * time.Minute
			}
			// free-running companion pass under Go's race detector: the same programs checked with parallel body
			// checking on the uninstrumented checker (see engine.RacePass)
			c.Case("racepass/programs", func(r *engine.R) {
				var l []map[string]any
				for _, p := range progs {
					for _, lim := range limits[1:] {
						l = append(l, map[string]any{"name": fmt.Sprintf("%s/limit=%d", p.name, lim), "src": p.src, "limit": lim})
					}
				}
				b, _ := json.Marshal(l)
				f := "/verif/.work/c11-racepass.json"
				os.WriteFile(f, b, 0o644)
				rounds := "10"
				if c.Thorough {
					rounds = "100"
				}
				engine.RacePass(r, "parallel checking", 15*time.Minute, "checker", f, rounds)
			})
			for _, p := range progs {
				if only := os.Getenv("C11_ONLY"); only != "" && only != p.name { // development aid
					continue
				}
				for _, lim := range limits {
					p, lim := p, lim
					c.Case(fmt.Sprintf("%s/limit=%d/bound=%d", p.name, lim, bound), func(r *engine.R) { explore(r, p, lim, bound) })
				}
			}
		},
	})
}

func runCompiled(fn *vm.BytecodeFunction) string {
	res := elkrun.Exec(fn, nil)
	elkrun.ResetRuntime()
	return res.Outcome()
}

func checkOnce(p prog) (string, *vm.BytecodeFunction) {
	var fn *vm.BytecodeFunction
	var out string
	func() {
		defer func() {
			if e := recover(); e != nil {
				out = "CHECKER-PANIC " + engine.PanicSig(fmt.Sprint(e), "")
			}
		}()
		f, diags := checker.CheckSource("p.elk", p.src, nil, bitfield.BitField16{}, nil)
		var ds []string
		for _, d := range diags {
			ds = append(ds, d.Error())
		}
		sort.Strings(ds)
		out = "diagnostics=[" + strings.Join(ds, " ; ") + "]"
		if !diags.IsFailure() {
			fn = f
		}
	}()
	return out, fn
}

func explore(r *engine.R, p prog, lim, bound int) {
	// sequential reference: limit 1, no scheduler
	checker.MethodCheckConcurrencyLimit = 1
	refDiag, refFn := checkOnce(p)
	ref := refDiag
	if refFn != nil {
		ref += " | " + runCompiled(refFn)
	}
	checker.MethodCheckConcurrencyLimit = lim
	defer func() { checker.MethodCheckConcurrencyLimit = 1 }()
	run := func(prefix []int, opts verifrt.Options) (*verifrt.Exec, string) {
		var d string
		var fn *vm.BytecodeFunction
		x := verifrt.Run(func() { d, fn = checkOnce(p) }, prefix, opts)
		out := d
		if x.Panic == "" && x.Fatal == "" && !x.Deadlock && fn != nil {
			out += " | " + runCompiled(fn) // the compiled program runs outside the scheduler
		} else {
			elkrun.ResetRuntime()
		}
		return x, x.Describe() + " | " + out
	}
	want := "completed | " + ref
	outcomes := map[string]int{}
	opts := verifrt.Options{RegionOnly: true, NoEvents: true, Steps: true}
	st := sched.Explore(sched.Config{Bound: bound, MaxExecs: 200000, Deadline: time.Now().Add(caseBudget), Opts: opts}, run, func(x *verifrt.Exec, outcome string, _ int) {
		outcomes[outcome]++
		if x.Diverged != "" {
			r.Violation("INFRA replay divergence", p.name+"\n"+x.Diverged, nil)
			return
		}
		if outcome == want {
			return
		}
		sig := "schedule-dependent outcome program=" + p.name
		switch {
		case x.Deadlock:
			sig = "deadlock program=" + p.name
		case x.Panic != "" || x.Fatal != "":
			sig = "host-crash program=" + p.name + " " + engine.PanicSig(x.Panic+x.Fatal, x.PanicStack)
		case strings.Contains(outcome, "CHECKER-PANIC"):
			sig = "checker-panic program=" + p.name
		case strings.Contains(outcome, "GOPANIC"):
			sig = "compiled-program-crashes program=" + p.name
		}
		r.Violation(sig, fmt.Sprintf("MethodCheckConcurrencyLimit=%d\nsequential: %s\nthis schedule: %s\nschedule: %v\n%s\nprogram:%s", lim, want, outcome, x.ChoiceList(), x.PanicStack, p.src),
			map[string]any{"program": p.name, "source": p.src, "limit": lim, "schedule": x.ChoiceList()})
	})
	r.Eval(st.Execs)
	r.AddStates(st.States)
	r.AddTrans(st.Transitions)
	r.AddValidated(st.Replayed)
	if st.Execs >= 20 {
		r.NT(1)
	}
	r.Outcome(fmt.Sprintf("%s: %d distinct", p.name, len(outcomes)))
	if st.Capped {
		r.Capped(fmt.Sprintf("budget hit: %s limit=%d", p.name, lim))
	}
	r.Sample(map[string]any{"program": p.name, "limit": lim, "bound": bound, "executions": st.Execs, "max_points": st.MaxPoints, "distinct_outcomes": len(outcomes), "reference": ref})
}
