// C08 — results do not depend on which evaluation path the compiler chose.
//
// Differential, bounded-exhaustive: the operation space is read from elk's own type environment (every method of
// the builtin value classes whose parameters are simple value types, plus the operators that are not methods);
// every operation is compiled in up to seven forms that make the compiler choose a different evaluation path
// (constant folding, type-specialised opcode, generic builtin opcode, dynamic CALL_METHOD through an interface /
// supertype, statically bound native call to the selected overload, statically bound call to the base method)
// and run over the full product of a fixed value set per operand kind. All forms must print the same inspect
// string or raise an error of the same class. The disassembly of every form is inspected: a (operation, operand
// kinds) tuple only counts as non-trivial when at least two forms really compiled to different instructions.
package main

import (
	"bytes"
	"fmt"
	"os"
	"regexp"
	"runtime/debug"
	"sort"
	"strings"
	"time"

	"github.com/elk-language/elk/bitfield"
	"github.com/elk-language/elk/position/diagnostic"
	"github.com/elk-language/elk/types"
	"github.com/elk-language/elk/types/checker"
	"github.com/elk-language/elk/value"
	"github.com/elk-language/elk/vm"

	"verifharness/elkrun"
	"verifharness/engine"
)

// ---------------------------------------------------------------------------------------------------------
// operand kinds

type kind struct {
	name  string   // used in signatures
	class string   // class under Std whose methods are enumerated
	typ   string   // source text of the exact static type
	vals  []string // literal source texts (static expressions), simplest first
	nq    int      // how many of them the quick tier uses
	super []string // supertypes / interfaces of the std library through which calls dispatch dynamically
}

var kinds = []kind{
	{"Int", "Int", "::Std::Int", []string{"0", "1", "(-3)", "7", "9223372036854775807", "18446744073709551617", "(-18446744073709551617)", "64"}, 5, nil},
	{"Float", "Float", "::Std::Float", []string{"0.0", "1.25", "3.5", "(-2.75)", "0.1", "1e30", "2.0", "(-0.0)", "7.0", "1e-7"}, 6, nil},
	{"BigFloat", "BigFloat", "::Std::BigFloat", []string{"0.0bf", "1.5bf", "(-2.25bf)", "3.0bf", "0.1bf", "1e30bf"}, 4, nil},
	{"Float64", "Float64", "::Std::Float64", []string{"0.0f64", "1.5f64", "(-2.25f64)", "3.0f64", "0.1f64", "1e300f64"}, 4, nil},
	{"Float32", "Float32", "::Std::Float32", []string{"0.0f32", "1.5f32", "(-2.25f32)", "3.0f32", "0.1f32", "1e30f32"}, 4, nil},
	{"Int8", "Int8", "::Std::Int8", []string{"0i8", "3i8", "(-3i8)", "127i8", "(-127i8 - 1i8)", "100i8"}, 5, nil},
	{"Int16", "Int16", "::Std::Int16", []string{"0i16", "3i16", "(-3i16)", "32767i16", "300i16"}, 4, nil},
	{"Int32", "Int32", "::Std::Int32", []string{"0i32", "3i32", "(-3i32)", "2147483647i32", "70000i32"}, 4, nil},
	{"Int64", "Int64", "::Std::Int64", []string{"0i64", "3i64", "(-3i64)", "9223372036854775807i64", "5000000000i64"}, 4, nil},
	{"UInt8", "UInt8", "::Std::UInt8", []string{"0u8", "3u8", "255u8", "128u8", "7u8"}, 4, nil},
	{"UInt16", "UInt16", "::Std::UInt16", []string{"0u16", "3u16", "65535u16", "300u16"}, 4, nil},
	{"UInt32", "UInt32", "::Std::UInt32", []string{"0u32", "3u32", "4294967295u32", "70000u32"}, 4, nil},
	{"UInt64", "UInt64", "::Std::UInt64", []string{"0u64", "3u64", "18446744073709551615u64", "5000000000u64"}, 4, nil},
	{"UInt", "UInt", "::Std::UInt", []string{"0u", "3u", "18446744073709551615u", "64u"}, 4, nil},
	{"String", "String", "::Std::String", []string{`""`, `"a"`, `"abc"`, `"ß√"`, `"12"`, `"Abc"`, `"a b"`, `"b"`}, 5, nil},
	{"Char", "Char", "::Std::Char", []string{"`a`", "`b`", "`ß`", "`1`", "`A`"}, 4, nil},
	{"Symbol", "Symbol", "::Std::Symbol", []string{":a", ":b", ":abc", `:"a b"`}, 3, nil},
	{"Bool", "Bool", "bool", []string{"true", "false"}, 2, nil},
	{"Nil", "Nil", "nil", []string{"nil"}, 1, nil},
	{"List", "ArrayList", "::Std::ArrayList[::Std::Int]", []string{"[]", "[1]", "[1, 2]", "[2, 1, 3]", "[3, 3]"}, 4,
		[]string{"::Std::List[::Std::Int]", "::Std::Tuple[::Std::Int]", "::Std::Collection[::Std::Int]"}},
	{"Tuple", "ArrayTuple", "::Std::ArrayTuple[::Std::Int]", []string{"%[]", "%[1]", "%[1, 2]", "%[2, 1, 3]"}, 4,
		[]string{"::Std::Tuple[::Std::Int]", "::Std::ImmutableCollection[::Std::Int]"}},
	{"Range", "ClosedRange", "::Std::ClosedRange[::Std::Int]", []string{"(1...3)", "(1...1)", "((-2)...5)", "(3...1)"}, 3,
		[]string{"::Std::Range[::Std::Int]"}},
}

func kindByName(n string) *kind {
	for i := range kinds {
		if kinds[i].name == n {
			return &kinds[i]
		}
	}
	panic("no kind " + n)
}

func (k *kind) values(thorough bool) []string {
	if thorough || k.nq >= len(k.vals) {
		return k.vals
	}
	return k.vals[:k.nq]
}

var bigLit = regexp.MustCompile(`\d{5,}|e\d\d`)

// smallOnly drops values of large magnitude (operands of amplifying operations: shifts, powers, repetition, padding).
func smallOnly(vs []string) []string {
	var r []string
	for _, v := range vs {
		if !bigLit.MatchString(v) {
			r = append(r, v)
		}
	}
	return r
}

var intKinds = []string{"Int", "Int8", "Int16", "Int32", "Int64", "UInt8", "UInt16", "UInt32", "UInt64", "UInt"}

// argKinds maps the declared type of a parameter to the operand kinds tried for it; the checker has the last
// word (forms it rejects are dropped). Unknown types: every kind is tried.
func argKinds(decl string, recv *kind) []string {
	switch decl {
	case "any":
		return allKindNames()
	case "Std::Int":
		return []string{"Int"}
	case "Std::AnyInt":
		return intKinds
	case "Std::CoercibleNumeric":
		return []string{"Int", "Float", "BigFloat"}
	case "Std::String | Std::Char":
		return []string{"String", "Char"}
	case "Std::Range[Std::Int]":
		return []string{"Range"}
	case "Val", "V", "Element":
		if recv.name == "List" || recv.name == "Tuple" || recv.name == "Range" {
			return []string{"Int"}
		}
		return nil
	case "Std::Tuple[V]", "Std::Tuple[Val]":
		return []string{"List", "Tuple"}
	case "bool", "Std::Bool":
		return []string{"Bool"}
	}
	if strings.HasPrefix(decl, "Std::") {
		for i := range kinds {
			if kinds[i].class == decl[5:] {
				return []string{kinds[i].name}
			}
		}
	}
	if strings.Contains(decl, "|:") || strings.HasPrefix(decl, "|") { // closure parameter
		return nil
	}
	return allKindNames()
}

func allKindNames() []string {
	r := make([]string, len(kinds))
	for i := range kinds {
		r[i] = kinds[i].name
	}
	return r
}

// ---------------------------------------------------------------------------------------------------------
// operations

type operation struct {
	recv    *kind
	name    string   // method name, or the operator token for operators that are not methods
	label   string   // signature label: op=<token> or method=<K>#<name>
	syntax  string   // "bin" a OP b | "un" OP a | "sub" a[b] | "call" a.name(args) | "neg" !(a.m(b)) for != and !~
	token   string   // operator token for bin/un/neg
	sig     string   // "sig ..." line for the generated interface ("" = no interface form)
	params  []string // declared parameter types (required parameters only)
	nometh  bool     // the operator is not a method (===, &&, ...)
	amplify bool     // right operands restricted to small magnitudes
}

var binaryOps = map[string]bool{"+": true, "-": true, "*": true, "/": true, "**": true, "%": true, "<<": true, ">>": true, "<<<": true, ">>>": true,
	"&": true, "|": true, "^": true, "&~": true, "==": true, "=~": true, "<": true, "<=": true, ">": true, ">=": true, "<=>": true}
var unaryOps = map[string]string{"-@": "-", "+@": "+", "~": "~"}
var amplifying = map[string]bool{"<<": true, ">>": true, "<<<": true, ">>>": true, "**": true, "*": true, "repeat": true, "ljust": true, "rjust": true, "grow": true, "center": true, "set_precision": true, "p": true}

var setterRe = regexp.MustCompile(`^[a-zA-Z_][a-zA-Z0-9_]*=$`)
var skipMethod = regexp.MustCompile(`^(to_ast_.*|class|iter|.*_iter|hash|copy|sleep.*)$`)

var typeEnv *types.GlobalEnvironment

func closedType(s string) bool {
	// the signature must be re-parsable outside the class: no type parameters, no self types
	for _, bad := range []string{"Val", "Key", "Value", "self", "Element", "|:"} {
		if regexp.MustCompile(`\b` + regexp.QuoteMeta(bad) + `\b`).MatchString(s) {
			return false
		}
	}
	return !strings.Contains(s, "|:")
}

func operationsOf(k *kind) []operation {
	c, ok := typeEnv.Std().Subtype(value.ToSymbol(k.class))
	if !ok {
		panic("no class " + k.class)
	}
	ns, ok := c.Type.(types.Namespace)
	if !ok {
		panic("not a namespace " + k.class)
	}
	byName := map[string]*types.Method{}
	var names []string
	for name, m := range types.AllMethods(ns) {
		n := name.String()
		if _, dup := byName[n]; dup {
			continue
		}
		byName[n] = m
		names = append(names, n)
	}
	sort.Strings(names)
	var ops []operation
	for _, n := range names {
		m := byName[n]
		if m.OverloadId != 0 || regexp.MustCompile(`@\d+$`).MatchString(n) || skipMethod.MatchString(n) || setterRe.MatchString(n) || n == "[]=" {
			continue
		}
		if m.IsAbstract() || m.IsMacro() || m.IsGenerator() || m.IsAsync() {
			continue
		}
		ret := "void"
		if m.ReturnType != nil {
			ret = types.Inspect(m.ReturnType)
		}
		if ret == "void" || strings.Contains(ret, "Iterator") || strings.Contains(ret, "Box") || ret == "never" {
			continue
		}
		var params []string
		bad := false
		for i, p := range m.Params {
			if p.IsPositionalRest() || p.IsNamedRest() {
				bad = true
				break
			}
			if i >= len(m.Params)-m.OptionalParamCount {
				break // optional parameters are left out of the call
			}
			params = append(params, types.Inspect(p.Type))
		}
		if bad || len(params) > 2 {
			continue
		}
		for _, p := range params {
			if len(argKinds(p, k)) == 0 {
				bad = true
			}
		}
		if bad {
			continue
		}
		op := operation{recv: k, name: n, params: params, amplify: amplifying[n] && !(n == "*" && isNumeric(k))}
		sigText := m.InspectSignature(false)
		if !m.IsGeneric() && len(m.TypeParameters) == 0 && closedType(sigText) && !strings.Contains(sigText, "&") {
			op.sig = "sig " + strings.TrimPrefix(sigText, "def ")
		}
		switch {
		case binaryOps[n] && len(params) == 1:
			op.syntax, op.token, op.label = "bin", n, "op="+n
			ops = append(ops, op)
			if n == "==" || n == "=~" {
				neg := op
				neg.syntax = "neg"
				neg.token = map[string]string{"==": "!=", "=~": "!~"}[n]
				neg.label = "op=" + neg.token
				ops = append(ops, neg)
			}
		case unaryOps[n] != "" && len(params) == 0:
			op.syntax, op.token, op.label = "un", unaryOps[n], "op=unary"+unaryOps[n]
			ops = append(ops, op)
		case n == "[]" && len(params) == 1:
			op.syntax, op.label = "sub", "op=[]"
			ops = append(ops, op)
		case regexp.MustCompile(`^[a-z_][a-z0-9_]*[?!]?$`).MatchString(n):
			op.syntax, op.label = "call", "method="+k.name+"#"+n
			ops = append(ops, op)
		}
	}
	// operators that are not methods
	for _, t := range []string{"===", "!==", "&&", "||", "??"} {
		ops = append(ops, operation{recv: k, name: t, label: "op=" + t, syntax: "bin", token: t, params: []string{"any"}, nometh: true})
	}
	ops = append(ops, operation{recv: k, name: "!", label: "op=unary!", syntax: "un", token: "!", nometh: true})
	return ops
}

func isNumeric(k *kind) bool {
	switch k.name {
	case "String", "Char", "List", "Tuple", "Symbol", "Range":
		return false
	}
	return true
}

// ---------------------------------------------------------------------------------------------------------
// forms

const prelude = elkrun.ShowPrelude

const catchTail = `  catch ::Std::Error() as e
    println("ERR " + e.class.name)
  catch e
    println("ERR non-error value")
  end
`

type form struct {
	variant string
	name    string // helper method name
	def     string // helper method definition ("" for the literal form, which is written inline)
	desc    string // instructions the form compiled to
	ok      bool
}

func exprOf(op *operation, a string, args []string, explicit bool) string {
	switch {
	case op.syntax == "un" && !explicit:
		return op.token + a
	case op.syntax == "un":
		return fmt.Sprintf("%s.%s()", a, op.name)
	case op.syntax == "sub":
		return fmt.Sprintf("%s[%s]", a, args[0])
	case op.syntax == "bin" && !explicit:
		return fmt.Sprintf("%s %s %s", a, op.token, args[0])
	case op.syntax == "neg" && !explicit:
		return fmt.Sprintf("%s %s %s", a, op.token, args[0])
	case op.syntax == "neg":
		return fmt.Sprintf("!(%s.%s(%s))", a, op.name, args[0])
	}
	return fmt.Sprintf("%s.%s(%s)", a, op.name, strings.Join(args, ", "))
}

func body(expr string) string {
	return "  do\n    x := " + expr + "\n    println(show(x))\n" + catchTail
}

func helper(name string, ptypes []string, expr string) string {
	var ps []string
	for i, t := range ptypes {
		ps = append(ps, fmt.Sprintf("p%d: %s", i, t))
	}
	return fmt.Sprintf("def %s(%s)\n%send\n", name, strings.Join(ps, ", "), body(expr))
}

// formsOf builds the candidate forms of one operation applied to operands of the given kinds.
// seq makes helper and interface names unique within a worker process: the runtime namespaces are process-global and
// the compiler binds calls statically to whatever method of that name the runtime already has.
var seq int

func formsOf(op *operation, argk []*kind, repVals []string) (forms []form, ifaces string) {
	seq++
	iface := fmt.Sprintf("IOp%d", seq)
	atypes := make([]string, len(argk))
	pn := []string{"p1", "p2"}[:len(argk)]
	for i, k := range argk {
		atypes[i] = k.typ
	}
	exact := append([]string{op.recv.typ}, atypes...)
	hasOpSyntax := op.syntax != "call"
	add := func(variant string, ptypes []string, explicit bool) {
		name := fmt.Sprintf("v%d_%s", seq, variant)
		forms = append(forms, form{variant: variant, name: name, def: helper(name, ptypes, exprOf(op, "p0", pn, explicit))})
	}
	if hasOpSyntax {
		// constant folded: written inline per value tuple; the representative is only used for the disassembly
		ln := fmt.Sprintf("v%d_literal", seq)
		forms = append(forms, form{variant: "literal", name: ln, def: "def " + ln + "\n" + body(exprOf(op, repVals[0], repVals[1:], false)) + "end\n"})
		add("typed", exact, false)
		switch op.recv.name {
		case "Int":
			add("union", append([]string{"::Std::Int | ::Std::Float"}, atypes...), false)
		case "Float":
			add("union", append([]string{"::Std::Float | ::Std::Int"}, atypes...), false)
		case "BigFloat":
			add("union", append([]string{"::Std::BigFloat | ::Std::Float"}, atypes...), false)
		}
	}
	if op.nometh {
		add("any", append([]string{"any"}, atypes...), false)
		if len(argk) == 1 {
			add("anyboth", []string{"any", "any"}, false)
		}
		return forms, ""
	}
	if op.sig != "" {
		ifaces = "interface " + iface + "\n  " + op.sig + "\nend\n"
		add("dynamic", append([]string{iface}, atypes...), false)
	}
	for i, s := range op.recv.super {
		add(fmt.Sprintf("super%d", i), append([]string{s}, atypes...), false)
	}
	if op.syntax != "sub" {
		add("method", exact, true)
		// statically bound call of the base method: the argument is typed as the declared parameter type
		if len(argk) == 1 && op.params[0] != "any" && closedType(op.params[0]) && "::"+op.params[0] != atypes[0] && !strings.Contains(op.params[0], "[") {
			add("methodwide", []string{op.recv.typ, "::" + strings.ReplaceAll(op.params[0], " | ", " | ::")}, true)
		} else if len(argk) == 1 && op.params[0] == "any" {
			add("methodwide", []string{op.recv.typ, "any"}, true)
		}
	}
	return forms, ifaces
}

// compile type-checks and compiles a program like elkrun.Compile, and also returns the lines of the FAIL diagnostics.
func compile(src string) (fn *vm.BytecodeFunction, failLines []int, diags string, panicSig string) {
	defer func() {
		if p := recover(); p != nil {
			st := string(debug.Stack())
			panicSig = engine.PanicSig(fmt.Sprint(p), st)
			if panicSig == "" {
				panicSig = fmt.Sprint(p)
			}
			fn = nil
		}
	}()
	f, dl := checker.CheckSource("p.elk", src, nil, bitfield.BitField16{}, nil)
	if dl.IsFailure() || f == nil {
		for _, d := range dl {
			if d.Severity == diagnostic.FAIL && d.Location != nil {
				failLines = append(failLines, d.Location.StartPos.Line)
			}
		}
		if dl != nil {
			diags = dl.Error()
		}
		return nil, failLines, diags, ""
	}
	return f, nil, "", ""
}

// accept compiles prelude+defs of the forms idx; when the checker rejects the program the definitions its
// diagnostics point into are dropped and the rest is retried (bisection when the diagnostics cannot be mapped).
func accept(pre string, forms []*form, r *engine.R) {
	if len(forms) == 0 {
		return
	}
	var b strings.Builder
	b.WriteString(pre)
	startLine := make([]int, len(forms)+1)
	line := strings.Count(pre, "\n") + 1
	for i, f := range forms {
		startLine[i] = line
		b.WriteString(f.def)
		line += strings.Count(f.def, "\n")
	}
	startLine[len(forms)] = line
	fn, failLines, _, psig := compile(b.String())
	r.Count("probe_compiles", 1)
	if fn != nil {
		var buf bytes.Buffer
		fn.Disassemble(&buf)
		secs := sections(buf.String())
		for _, f := range forms {
			f.ok = true
			f.desc = describe(secs["Std::Kernel::"+f.name], f.variant == "literal")
		}
		return
	}
	if len(forms) == 1 {
		if psig != "" {
			forms[0].desc = "COMPILER-PANIC " + psig
		}
		return
	}
	if psig == "" {
		bad := map[int]bool{}
		for _, ln := range failLines {
			for i := range forms {
				if ln >= startLine[i] && ln < startLine[i+1] {
					bad[i] = true
				}
			}
		}
		if len(bad) > 0 && len(bad) < len(forms) {
			var rest []*form
			for i, f := range forms {
				if !bad[i] {
					rest = append(rest, f)
				}
			}
			accept(pre, rest, r)
			return
		}
	}
	mid := len(forms) / 2
	accept(pre, forms[:mid], r)
	accept(pre, forms[mid:], r)
}

// ---------------------------------------------------------------------------------------------------------
// running many independent items in one program; unlike elkrun.Batch a crashing item costs one re-run of the
// items after it (the crashing item is known from the markers) instead of a bisection.

const marker = "@@#"

type itemRes struct {
	out      string
	rejected bool
	err      string // class of an uncaught Elk error
	panic    string // Go panic signature
	ran      bool
}

func runItems(pre string, codes []string, r *engine.R) []itemRes {
	res := make([]itemRes, len(codes))
	idx := make([]int, len(codes))
	for i := range idx {
		idx[i] = i
	}
	runItemSet(pre, codes, idx, res, r)
	return res
}

func runItemSet(pre string, codes []string, pending []int, res []itemRes, r *engine.R) {
	for len(pending) > 0 {
		var b strings.Builder
		b.WriteString(pre)
		b.WriteString("\n")
		line := strings.Count(pre, "\n") + 2
		startLine := make([]int, len(pending)+1)
		for k, i := range pending {
			startLine[k] = line
			fmt.Fprintf(&b, "println(\"%s%d\")\n%s\n", marker, i, codes[i])
			line += 2 + strings.Count(codes[i], "\n")
		}
		startLine[len(pending)] = line
		fn, failLines, _, psig := compile(b.String())
		r.Count("batch_compiles", 1)
		if fn == nil {
			if len(pending) == 1 {
				res[pending[0]] = itemRes{rejected: psig == "", panic: psig, ran: true}
				return
			}
			if psig == "" {
				bad := map[int]bool{}
				for _, ln := range failLines {
					for k := range pending {
						if ln >= startLine[k] && ln < startLine[k+1] {
							bad[k] = true
						}
					}
				}
				if len(bad) > 0 && len(bad) < len(pending) {
					var rest []int
					for k, i := range pending {
						if bad[k] {
							res[i] = itemRes{rejected: true, ran: true}
						} else {
							rest = append(rest, i)
						}
					}
					pending = rest
					continue
				}
			}
			mid := len(pending) / 2
			runItemSet(pre, codes, pending[:mid], res, r)
			runItemSet(pre, codes, pending[mid:], res, r)
			return
		}
		xr := elkrun.Exec(fn, nil)
		// split the output by markers
		cur := -1
		pos := map[int]int{}
		for k, i := range pending {
			pos[i] = k
		}
		last := -1
		for _, l := range strings.SplitAfter(xr.Stdout, "\n") {
			if strings.HasPrefix(l, marker) {
				var n int
				if _, err := fmt.Sscanf(strings.TrimSpace(l[len(marker):]), "%d", &n); err == nil {
					if k, ok := pos[n]; ok {
						cur = n
						last = k
						res[n].ran = true
						continue
					}
				}
			}
			if cur >= 0 {
				res[cur].out += l
			}
		}
		if xr.Panic == "" && xr.Err == "" {
			return
		}
		if last < 0 {
			// failed before the first item: nothing can be attributed
			for _, i := range pending {
				res[i] = itemRes{panic: "failure before the first item: " + xr.PanicSig + xr.ErrClass, ran: true}
			}
			return
		}
		i := pending[last]
		if xr.Panic != "" {
			res[i].panic = xr.PanicSig
			if res[i].panic == "" {
				res[i].panic = xr.Panic
			}
		} else {
			res[i].err = xr.ErrClass
		}
		pending = pending[last+1:]
	}
}

var secRe = regexp.MustCompile(`(?m)^== Disassembly of (.*) at: .* ==$`)
var addrRe = regexp.MustCompile(`&: 0x[0-9a-f]+, `)
var locRe = regexp.MustCompile(`, location: [^}]*`)

func sections(dis string) map[string][]string {
	out := map[string][]string{}
	idx := secRe.FindAllStringSubmatchIndex(dis, -1)
	for i, m := range idx {
		name := dis[m[2]:m[3]]
		end := len(dis)
		if i+1 < len(idx) {
			end = idx[i+1][0]
		}
		out[name] = strings.Split(dis[m[1]:end], "\n")
	}
	return out
}

var loadRe = regexp.MustCompile(`^(LOAD_|INT_|FLOAT_|TRUE$|FALSE$|NIL$|COPY$|UNDEFINED$|CHAR_)`)

// describe returns the instructions that compute `x := <expr>`: everything before the first SET_LOCAL, without
// the loads of the parameters.
func describe(lines []string, literal bool) string {
	var ins []string
	onlyLoads := true
	for _, l := range lines {
		if len(l) < 33 || l[0] < '0' || l[0] > '9' {
			continue
		}
		f := strings.TrimSpace(l[32:])
		opc := strings.Fields(f)
		if len(opc) == 0 {
			continue
		}
		name := opc[0]
		if strings.HasPrefix(name, "SET_LOCAL") {
			break
		}
		if strings.HasPrefix(name, "PREP_LOCALS") || strings.HasPrefix(name, "GET_LOCAL") {
			continue
		}
		if !loadRe.MatchString(name) {
			onlyLoads = false
		}
		if strings.HasPrefix(name, "CALL_") || strings.HasPrefix(name, "NEW_") {
			rest := strings.TrimSpace(strings.TrimPrefix(f, name))
			rest = addrRe.ReplaceAllString(rest, "")
			rest = locRe.ReplaceAllString(rest, "")
			if i := strings.Index(rest, "("); i >= 0 {
				rest = rest[i:]
			}
			name += rest
		} else if loadRe.MatchString(name) && !literal {
			continue
		}
		ins = append(ins, name)
	}
	if literal && onlyLoads {
		return "FOLDED"
	}
	return strings.Join(ins, " ")
}

// ---------------------------------------------------------------------------------------------------------

func main() {
	engine.Main(&engine.Spec{
		Prop:  "C08",
		Level: "exploration",
		Rule: "operation space = every method of the 22 builtin value classes (Int, Float, BigFloat, Float32/64, Int8..UInt64, UInt, String, Char, Symbol, Bool, Nil, ArrayList, ArrayTuple, ClosedRange) " +
			"read from elk's type environment that has ≤2 required parameters of value types and a printable result (operators + - * / ** % << >> <<< >>> & | ^ &~ == != =~ !~ < <= > >= <=>, unary - + ~, [] and ~40 named methods per class), " +
			"plus the non-method operators === !== && || ?? !; operand kinds per parameter from its declared type (any → all 22 kinds), filtered by the type checker; " +
			"each (operation, operand kinds) is compiled as: literal (constant folded), typed (exact parameter types → specialised/generic builtin opcode), union (Int|Float receiver → generic opcode), " +
			"dynamic (receiver typed as a generated interface → CALL_METHOD), superN (receiver typed as a std supertype), method (explicit call, statically bound to the selected overload), " +
			"methodwide (explicit call with the argument typed as the declared parameter type → base method); every form is run on the full product of 4–6 (thorough: all 4–10) values per kind " +
			"(amplifying operations: magnitudes < 10^5 only); all forms must print the same inspect string or raise the same error class. " +
			"An (operation, kinds) tuple is non-trivial only when its forms compiled to ≥2 different instruction sequences (taken from the disassembly); evaluations of trivial tuples are not counted as non-trivial",
		Assume:      []string{"method bodies compiled one at a time (MethodCheckConcurrencyLimit=1)", "inspect output identifies the value (C19 checks inspect itself)"},
		CaseTimeout: 300 * time.Second,
		// nominal run times on an idle 16-core machine: quick ≈ 40 s, thorough ≈ 2.5 min
		QuickDeadline:    10 * time.Minute,
		ThoroughDeadline: 45 * time.Minute,
		Setup: func(c *engine.Ctx) {
			elkrun.Init()
			typeEnv = checker.NewGlobalEnvironment()
		},
		Run: run,
	})
}

var numericKinds = " Int Float BigFloat Float64 Float32 Int8 Int16 Int32 Int64 UInt8 UInt16 UInt32 UInt64 UInt "

// quickKeeps decides which operand kind tuples the quick tier keeps (the thorough tier keeps all).
func quickKeeps(op *operation, k *kind, t []*kind) bool {
	if len(t) != 1 {
		return true
	}
	a := t[0].name
	switch {
	case k.name == "Int" && a == "Int" && binaryOps[op.name] && op.params[0] != "any":
		return false // Int×Int arithmetic is C06's territory: the quick tier keeps the mixed pairs only
	case op.token == "&&" || op.token == "||" || op.token == "??":
		// the right operand of a logical operator is never inspected by it
		return strings.Contains(" Int Float String Bool Nil UInt8 ", " "+a+" ")
	case op.params[0] == "any":
		if a == k.name {
			return true
		}
		if strings.Contains(numericKinds, " "+k.name+" ") {
			return strings.Contains(numericKinds+"String Nil ", " "+a+" ")
		}
		return strings.Contains(" Int Float String Char Symbol Bool Nil List Tuple Range ", " "+a+" ")
	}
	return true
}

func run(c *engine.Ctx) {
	// the enumeration itself needs the type environment
	if typeEnv == nil {
		elkrun.Init()
		typeEnv = checker.NewGlobalEnvironment()
	}
	for ki := range kinds {
		k := &kinds[ki]
		for _, op := range operationsOf(k) {
			op := op
			// operand kind tuples
			var tuples [][]*kind
			switch len(op.params) {
			case 0:
				tuples = [][]*kind{nil}
			case 1:
				for _, n := range argKinds(op.params[0], k) {
					tuples = append(tuples, []*kind{kindByName(n)})
				}
			case 2:
				for _, n1 := range argKinds(op.params[0], k) {
					for _, n2 := range argKinds(op.params[1], k) {
						tuples = append(tuples, []*kind{kindByName(n1), kindByName(n2)})
					}
				}
			}
			if !c.Thorough {
				var t2 [][]*kind
				for _, t := range tuples {
					if quickKeeps(&op, k, t) {
						t2 = append(t2, t)
					}
				}
				tuples = t2
			}
			id := fmt.Sprintf("%s/%s", k.name, strings.TrimPrefix(strings.TrimPrefix(op.label, "op="), "method="+k.name+"#"))
			if only := os.Getenv("C08_ONLY"); only != "" && only != id {
				continue // development aid: run a single case
			}
			c.Case(id, func(r *engine.R) { runCase(c, r, &op, tuples) })
		}
	}
}

// finding is one disagreement class inside a case, aggregated over the operand kinds that show it.
type finding struct {
	kinds  []string // argument kind tuples showing it
	detail string
	input  string
	count  int
}

// trun is one (operation, operand kinds) tuple of a case.
type trun struct {
	argk       []*kind
	kn         string // argument kinds, comma separated
	kindsStr   string // receiver and argument kinds
	tuples     [][]string
	forms      []form
	live       []*form
	nontrivial bool
	dead       map[int]string // live form index → panic outcome observed on the representative tuple
	outs       [][]string     // [tuple][live form] outcome
}

var capRe = regexp.MustCompile(`\]:\d+`)

func outcomeOf(ir itemRes) string {
	switch {
	case ir.panic != "":
		return "GOPANIC " + panicKey("GOPANIC "+ir.panic)
	case ir.rejected:
		return "<rejected>"
	case ir.err != "":
		return "UNCAUGHT " + ir.err
	case !ir.ran:
		return "<not run>"
	}
	// the spare capacity an ArrayList shows after `]` is not part of its value
	return capRe.ReplaceAllString(strings.TrimSpace(ir.out), "]")
}

var negLit = regexp.MustCompile(`^\(-`)
var firstNumRe = regexp.MustCompile(`\d+`)

func runCase(c *engine.Ctx, r *engine.R, op *operation, argTuples [][]*kind) {
	shift := op.token == "<<" || op.token == ">>" || op.token == "<<<" || op.token == ">>>"
	var truns []*trun
	var ifaces strings.Builder
	for _, argk := range argTuples {
		t := &trun{argk: argk, kindsStr: op.recv.name, dead: map[int]string{}}
		var kn []string
		for _, a := range argk {
			kn = append(kn, a.name)
			t.kindsStr += "," + a.name
		}
		t.kn = strings.Join(kn, ",")
		recvVals := op.recv.values(c.Thorough)
		argVals := make([][]string, len(argk))
		for i, a := range argk {
			argVals[i] = a.values(c.Thorough)
			if !c.Thorough && len(op.params) == 1 && op.params[0] == "any" && a.name != op.recv.name && len(argVals[i]) > 2 {
				argVals[i] = argVals[i][:2] // quick tier: operands of an unrelated kind only need to be present
			}
			if op.amplify {
				argVals[i] = smallOnly(argVals[i])
			}
			if shift && !c.Thorough && a.name != "Int" {
				// negative fixed-width shift amounts crash every form alike (C07's territory): thorough tier only
				var nn []string
				for _, v := range argVals[i] {
					if !negLit.MatchString(v) {
						nn = append(nn, v)
					}
				}
				argVals[i] = nn
			}
		}
		if op.token == "**" {
			recvVals = smallOnly(recvVals)
			// x ** 127i8 and x ** 255u8 never terminate in any form, the constant folder included (C07's territory)
			for i := range argVals {
				var keep []string
				for _, v := range argVals[i] {
					var n int
					fmt.Sscanf(firstNumRe.FindString(v), "%d", &n)
					if n <= 100 {
						keep = append(keep, v)
					}
				}
				argVals[i] = keep
			}
		}
		var rec func(i int, cur []string)
		rec = func(i int, cur []string) {
			if i == len(argk) {
				t.tuples = append(t.tuples, append([]string(nil), cur...))
				return
			}
			for _, v := range argVals[i] {
				rec(i+1, append(cur, v))
			}
		}
		for _, a := range recvVals {
			rec(0, []string{a})
		}
		if len(t.tuples) == 0 {
			continue
		}
		var ifc string
		t.forms, ifc = formsOf(op, argk, t.tuples[len(t.tuples)/2])
		ifaces.WriteString(ifc)
		truns = append(truns, t)
	}
	if len(truns) == 0 {
		return
	}
	pre := prelude + ifaces.String()
	// 1. which forms does the checker accept, and what do they compile to
	var all []*form
	for _, t := range truns {
		for i := range t.forms {
			all = append(all, &t.forms[i])
		}
	}
	accept(pre, all, r)
	found := map[string]*finding{}
	var keys []string
	report := func(t *trun, key, detail, input string) {
		f := found[key]
		if f == nil {
			f = &finding{detail: detail, input: input}
			found[key] = f
			keys = append(keys, key)
		}
		f.count++
		if len(f.kinds) == 0 || f.kinds[len(f.kinds)-1] != t.kn {
			f.kinds = append(f.kinds, t.kn)
		}
	}
	var defs strings.Builder
	var active []*trun
	for _, t := range truns {
		descs := map[string]bool{}
		for i := range t.forms {
			f := &t.forms[i]
			if strings.HasPrefix(f.desc, "COMPILER-PANIC") {
				report(t, "go-panic in the compiler "+strings.TrimPrefix(f.desc, "COMPILER-PANIC "), fmt.Sprintf("%s kinds=%s form %s: the compiler panics\n%s", op.label, t.kindsStr, f.variant, f.def), pre+f.def)
				continue
			}
			if !f.ok {
				r.Count("form_rejected:"+f.variant, 1)
				continue
			}
			t.live = append(t.live, f)
			descs[f.desc] = true
			r.Count("form:"+f.variant, 1)
		}
		if len(t.live) < 2 {
			r.Count("tuples_with_fewer_than_2_forms", 1)
			r.Outcome("not-accepted")
			continue
		}
		t.nontrivial = len(descs) >= 2
		if t.nontrivial {
			r.Count("nontrivial_operation_kind_tuples", 1)
		} else {
			r.Count("trivial_operation_kind_tuples", 1)
		}
		for _, f := range t.live {
			if f.variant != "literal" {
				defs.WriteString(f.def)
			}
		}
		active = append(active, t)
	}
	if len(active) == 0 {
		return
	}
	prog := pre + defs.String()
	itemCode := func(t *trun, f *form, vals []string) string {
		if f.variant == "literal" {
			return body(exprOf(op, vals[0], vals[1:], false))
		}
		return fmt.Sprintf("%s(%s)", f.name, strings.Join(vals, ", "))
	}
	// 2. representative tuple of every form: forms that crash the interpreter there are not run on the other tuples
	{
		var codes []string
		type m struct {
			t  *trun
			fi int
		}
		var ms []m
		for _, t := range active {
			rep := t.tuples[len(t.tuples)/2]
			for fi, f := range t.live {
				codes = append(codes, itemCode(t, f, rep))
				ms = append(ms, m{t, fi})
			}
		}
		for i, ir := range runItems(prog, codes, r) {
			if ir.panic != "" {
				ms[i].t.dead[ms[i].fi] = outcomeOf(ir)
			}
		}
	}
	// 3. all tuples; literal items (which can crash the compiler) separately from the calls, in chunks
	type m struct {
		t      *trun
		ti, fi int
	}
	var litCodes, callCodes []string
	var litM, callM []m
	for _, t := range active {
		t.outs = make([][]string, len(t.tuples))
		rep := len(t.tuples) / 2
		for ti, vals := range t.tuples {
			t.outs[ti] = make([]string, len(t.live))
			for fi, f := range t.live {
				if d, ok := t.dead[fi]; ok {
					if ti == rep {
						t.outs[ti][fi] = d
					} else {
						t.outs[ti][fi] = "<not run>"
					}
					continue
				}
				if f.variant == "literal" {
					litCodes = append(litCodes, itemCode(t, f, vals))
					litM = append(litM, m{t, ti, fi})
				} else {
					callCodes = append(callCodes, itemCode(t, f, vals))
					callM = append(callM, m{t, ti, fi})
				}
			}
		}
	}
	const chunk = 1200
	for lo := 0; lo < len(callCodes); lo += chunk {
		hi := min(lo+chunk, len(callCodes))
		for i, ir := range runItems(prog, callCodes[lo:hi], r) {
			mm := callM[lo+i]
			mm.t.outs[mm.ti][mm.fi] = outcomeOf(ir)
		}
	}
	const litChunk = 400
	for lo := 0; lo < len(litCodes); lo += litChunk {
		hi := min(lo+litChunk, len(litCodes))
		for i, ir := range runItems(prelude, litCodes[lo:hi], r) {
			mm := litM[lo+i]
			mm.t.outs[mm.ti][mm.fi] = outcomeOf(ir)
		}
	}
	// 4. compare
	for _, t := range active {
		compareTuple(r, op, t, prog, func(key, detail, input string) { report(t, key, detail, input) })
	}
	sort.Strings(keys)
	for _, key := range keys {
		f := found[key]
		if strings.HasPrefix(key, "go-panic") {
			// a crash is identified by the method and the crash site, not by operand kinds or form
			r.Violation(fmt.Sprintf("%s %s", opFamily(op), key), f.detail, f.input)
			continue
		}
		// one argument kind: name it; several: the defect does not depend on it (the list is in the detail). Naming
		// the exact set would make the signature depend on the tier's value sets.
		ks := strings.Join(f.kinds, "|")
		if len(f.kinds) > 1 {
			ks = "*"
		}
		sig := fmt.Sprintf("%s kinds=%s", op.label, op.recv.name)
		if ks != "" {
			sig += "," + ks
		}
		r.Violation(sig+" "+key, fmt.Sprintf("(%d operand tuples over argument kinds %s)\n%s", f.count, strings.Join(f.kinds, "|"), f.detail), f.input)
	}
}

func compareTuple(r *engine.R, op *operation, t *trun, prog string, report func(key, detail, input string)) {
	live := t.live
	for ti, vals := range t.tuples {
		// group forms by outcome
		groups := map[string][]int{}
		var order []string
		nforms := 0
		for fi := range live {
			o := t.outs[ti][fi]
			if o == "<rejected>" {
				r.Count("literal_item_rejected", 1)
				continue
			}
			if o == "<not run>" || o == "" && false {
				continue
			}
			nforms++
			if _, ok := groups[o]; !ok {
				order = append(order, o)
			}
			groups[o] = append(groups[o], fi)
		}
		if nforms < 2 {
			continue
		}
		r.Eval(nforms)
		if t.nontrivial {
			r.NT(1)
		}
		for _, o := range order {
			switch {
			case strings.HasPrefix(o, "GOPANIC"):
				r.Outcome("go-panic")
			case strings.HasPrefix(o, "ERR "), strings.HasPrefix(o, "UNCAUGHT"):
				r.Outcome(o)
			default:
				r.Outcome("value")
			}
		}
		if len(order) <= 1 {
			if strings.HasPrefix(order[0], "GOPANIC") {
				// every form crashes alike: the forms agree, so this is not a violation of C08 (it is one of C01)
				r.Count("all_forms_go_panic: "+opFamily(op)+" "+strings.TrimPrefix(order[0], "GOPANIC "), 1)
			}
			continue
		}
		// reference group: the largest; ties: the one containing the dynamic / base-method form
		ref := order[0]
		score := func(o string) int {
			s := len(groups[o]) * 10
			for _, fi := range groups[o] {
				switch live[fi].variant {
				case "dynamic", "any":
					s += 3
				case "methodwide", "super0":
					s += 2
				case "method":
					s++
				}
			}
			if strings.HasPrefix(o, "GOPANIC") {
				s = -1
			}
			return s
		}
		for _, o := range order[1:] {
			if score(o) > score(ref) {
				ref = o
			}
		}
		var table strings.Builder
		for fi, f := range live {
			fmt.Fprintf(&table, "  %-11s %-60s → %s\n", f.variant, "["+f.desc+"]", t.outs[ti][fi])
		}
		var src strings.Builder
		src.WriteString(prelude)
		for _, f := range live {
			if f.variant != "literal" {
				src.WriteString(f.def)
			}
		}
		if strings.Contains(prog, "interface ") {
			// the interface of this tuple's dynamic form
			for _, f := range live {
				if f.variant == "dynamic" {
					if i := strings.Index(f.def, "(p0: IOp"); i >= 0 {
						name := f.def[i+5:]
						name = name[:strings.IndexAny(name, ",)")]
						if k := strings.Index(prog, "interface "+name+"\n"); k >= 0 {
							e := strings.Index(prog[k:], "\nend\n")
							src.WriteString(prog[k : k+e+5])
						}
					}
				}
			}
		}
		for _, f := range live {
			if f.variant == "literal" {
				src.WriteString(body(exprOf(op, vals[0], vals[1:], false)))
			} else {
				src.WriteString(fmt.Sprintf("%s(%s)\n", f.name, strings.Join(vals, ", ")))
			}
		}
		// the deviating forms, grouped by what they print
		var dev []string
		for _, o := range order {
			if o == ref {
				continue
			}
			if strings.HasPrefix(o, "GOPANIC") {
				report("go-panic "+strings.TrimPrefix(o, "GOPANIC "), fmt.Sprintf("%s on operands %s (kinds %s): the forms disagree, some crash the interpreter\n%s", op.label, strings.Join(vals, ", "), t.kindsStr, table.String()), src.String())
				continue
			}
			var vs []string
			for _, fi := range groups[o] {
				vs = append(vs, live[fi].variant)
			}
			dev = append(dev, strings.Join(vs, "+"))
		}
		if len(dev) > 0 {
			report("variant="+strings.Join(dev, "/"), fmt.Sprintf("%s on operands %s (kinds %s): the forms disagree\n%s", op.label, strings.Join(vals, ", "), t.kindsStr, table.String()), src.String())
		}
	}
	r.Sample(fmt.Sprintf("%s kinds=%s: %d forms %v over %d operand tuples", op.label, t.kindsStr, len(live), descListP(live), len(t.tuples)))
}

func descListP(fs []*form) []string {
	var r []string
	for _, f := range fs {
		r = append(r, f.variant+"="+f.desc)
	}
	return r
}

// opFamily names the method behind an operation (!= and !~ are == and =~ negated).
func opFamily(op *operation) string {
	if op.nometh {
		return op.label
	}
	if op.syntax == "call" {
		return "method=" + op.name
	}
	return "op=" + op.name
}

var ofClassRe = regexp.MustCompile(` of class: [^@]*`)

var quotedValRe = regexp.MustCompile("value `+[^ ]*`+")
var funcNRe = regexp.MustCompile(`vm\.init\w+\.func\d+`)

// panicKey normalises "GOPANIC <msg> @ frame @ frame": the receiver class and value are dropped and only the
// innermost frame is kept (the second one is the per-class native wrapper).
func panicKey(o string) string {
	o = strings.TrimPrefix(o, "GOPANIC ")
	o = ofClassRe.ReplaceAllString(o, " ")
	o = quotedValRe.ReplaceAllString(o, "value `_`")
	parts := strings.Split(o, " @ ")
	if len(parts) > 2 {
		parts = parts[:2]
	}
	return funcNRe.ReplaceAllString(strings.TrimSpace(strings.Join(parts, " @ ")), "native")
}

func descList(fs []form) []string {
	var r []string
	for _, f := range fs {
		r = append(r, f.variant+"="+f.desc)
	}
	return r
}
