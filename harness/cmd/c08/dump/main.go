package main

import (
	"fmt"
	"strings"
	"time"

	"verifharness/elkrun"
)

func main() {
	elkrun.Init()
	small := elkrun.ShowPrelude + "println(show(1))\n"
	t := time.Now()
	for i := 0; i < 20; i++ {
		elkrun.Run(small, nil)
	}
	fmt.Println("small program:", time.Since(t)/20)
	var b strings.Builder
	b.WriteString(elkrun.ShowPrelude)
	b.WriteString("def f(a: Float, b: Float)\n  do\n    x := a - b\n    println(show(x))\n  catch ::Std::Error() as e\n    println(\"ERR \" + e.class.name)\n  end\nend\n")
	for i := 0; i < 200; i++ {
		fmt.Fprintf(&b, "println(\"@@#%d\")\nf(1.5, 2.5)\n", i)
	}
	t = time.Now()
	for i := 0; i < 5; i++ {
		elkrun.Run(b.String(), nil)
	}
	fmt.Println("200 call items:", time.Since(t)/5)
	b.Reset()
	b.WriteString(elkrun.ShowPrelude)
	for i := 0; i < 200; i++ {
		fmt.Fprintf(&b, "println(\"@@#%d\")\ndo\n  x := 1.5 - 2.5\n  println(show(x))\ncatch ::Std::Error() as e\n  println(\"ERR \" + e.class.name)\ncatch e\n  println(\"ERR other\")\nend\n", i)
	}
	t = time.Now()
	for i := 0; i < 5; i++ {
		elkrun.Run(b.String(), nil)
	}
	fmt.Println("200 literal items:", time.Since(t)/5)
	t = time.Now()
	for i := 0; i < 5; i++ {
		elkrun.Compile(b.String(), nil)
	}
	fmt.Println("200 literal items compile only:", time.Since(t)/5)
}
