package main

import (
	"fmt"
	"os"
	"sort"

	"github.com/elk-language/elk/types"
	"github.com/elk-language/elk/value"
	"github.com/elk-language/elk/types/checker"
	"verifharness/elkrun"
)

func main() {
	elkrun.Init()
	env := checker.NewGlobalEnvironment()
	for _, cn := range os.Args[1:] {
		ns, ok := env.Std().Subtype(value.ToSymbol(cn))
		_ = ok
		n, _ := ns.Type.(types.Namespace)
		if n == nil {
			fmt.Println("no namespace", cn)
			continue
		}
		fmt.Println("==", cn)
		var names []string
		mm := map[string]*types.Method{}
		for name, m := range types.AllMethods(n) {
			names = append(names, name.String())
			mm[name.String()] = m
		}
		sort.Strings(names)
		for _, nm := range names {
			m := mm[nm]
			fmt.Printf("%s\t%s\tnative=%v generic=%v under=%s\n", nm, m.InspectSignature(false), m.IsNative(), m.IsGeneric(), m.DefinedUnder.Name())
		}
	}
}
