// C22 — calendar arithmetic is exact, never wraps, and formatting round-trips.
//
// Bounded-exhaustive check of value.Date / value.DateTime / the span types against an independent
// days-from-civil / civil-from-days implementation (Howard Hinnant's algorithms, int64):
//
//	days      every boundary date × every day span, + and −, against civil(days(a) + n)
//	months    every boundary date × month/year spans; when the day of month exists in the target month the result
//	          must be exactly (y', m', d); when it does not, clamping to the last day and rolling over into the
//	          next month are both accepted (the headers do not say which one Elk intends)
//	diff      every ordered pair of boundary dates: a + (b − a) == b
//	range     a result outside −4194304..4194303 must not come back as a date (Go API and Elk level)
//	roundtrip parse(to_string(x)) == x, parse(strftime(x, f), f) == x for invertible formats
//	datetime  the same for DateTime over dates × times × fixed zone offsets, plus time spans
//	spans     Date::Span / Time::Span / DateTime::Span to_string → parse round trip
//	tz        Date arithmetic must not depend on the process time zone (child process with TZ=Europe/Warsaw)
package main

import (
	"encoding/json"
	"fmt"
	"os"
	"os/exec"
	"strings"
	"time"

	"github.com/elk-language/elk/value"

	"verifharness/elkrun"
	"verifharness/engine"
)

// ---------------------------------------------------------------------------------------------------------
// independent civil calendar (Hinnant)

func floorDiv(a, b int64) int64 {
	q := a / b
	if (a%b != 0) && ((a < 0) != (b < 0)) {
		q--
	}
	return q
}

func daysFromCivil(y, m, d int64) int64 {
	if m <= 2 {
		y--
	}
	era := floorDiv(y, 400)
	yoe := y - era*400
	mp := m + 9
	if m > 2 {
		mp = m - 3
	}
	doy := (153*mp+2)/5 + d - 1
	doe := yoe*365 + yoe/4 - yoe/100 + doy
	return era*146097 + doe - 719468
}

func civilFromDays(z int64) (y, m, d int64) {
	z += 719468
	era := floorDiv(z, 146097)
	doe := z - era*146097
	yoe := (doe - doe/1460 + doe/36524 - doe/146096) / 365
	y = yoe + era*400
	doy := doe - (365*yoe + yoe/4 - yoe/100)
	mp := (5*doy + 2) / 153
	d = doy - (153*mp+2)/5 + 1
	if mp < 10 {
		m = mp + 3
	} else {
		m = mp - 9
	}
	if m <= 2 {
		y++
	}
	return
}

func isLeap(y int64) bool { return y%4 == 0 && (y%100 != 0 || y%400 == 0) }

func daysInMonth(y, m int64) int64 {
	switch m {
	case 2:
		if isLeap(y) {
			return 29
		}
		return 28
	case 4, 6, 9, 11:
		return 30
	}
	return 31
}

const minYear, maxYear = -4194304, 4194303

func inRange(y int64) bool { return y >= minYear && y <= maxYear }

type civil struct{ y, m, d int64 }

func (c civil) String() string { return fmt.Sprintf("Date(%d, %d, %d)", c.y, c.m, c.d) }

func civilOf(d value.Date) civil { return civil{int64(d.Year()), int64(d.Month()), int64(d.Day())} }

func mk(c civil) value.Date {
	d, err := value.MakeValidatedDate(int(c.y), int(c.m), int(c.d))
	if !err.IsUndefined() {
		panic("cannot build " + c.String() + ": " + err.Inspect())
	}
	return d
}

// ---------------------------------------------------------------------------------------------------------
// the space

var years = []int64{-4194304, -4194303, -401, -400, -101, -100, -5, -4, -1, 0, 1, 4, 100, 400, 1582, 1970, 2024, 9999, 10000, 4194302, 4194303}

func datesOfYear(y int64) []civil {
	var out []civil
	for m := int64(1); m <= 12; m++ {
		for _, d := range []int64{1, 28, 29, 30, 31} {
			if d <= daysInMonth(y, m) {
				out = append(out, civil{y, m, d})
			}
		}
	}
	return out
}

func allDates() []civil {
	var out []civil
	for _, y := range years {
		out = append(out, datesOfYear(y)...)
	}
	return out
}

func pm(vs ...int64) []int64 {
	var out []int64
	for _, v := range vs {
		if v == 0 {
			out = append(out, 0)
		} else {
			out = append(out, v, -v)
		}
	}
	return out
}

var daySpans = pm(0, 1, 31, 365, 366, 106751, 106752, 146097, 2147483647)
var monthSpans = pm(1, 12, 13, 48, 4800, 8388607*12)

func yearClass(y int64) string {
	switch {
	case y < 0:
		return "year < 0"
	case y > 9999:
		return "year > 9999"
	}
	return "year 0..9999"
}

const sigRange = "result outside the year range comes back as a date instead of an error"

// wrongSig names the defect class of a wrong arithmetic result (coarse on purpose: one defect, one name).
func wrongSig(typ, op, kind string, year, wantYear, days int64) string {
	if days < 0 {
		days = -days
	}
	switch {
	case op == "-" && (year < 0 || wantYear < 0):
		return "subtracting a span gives a wrong result when the operand or the result has a negative year"
	case days+31 > 106751: // the subtraction route adds the day of month before converting to nanoseconds
		return "a day span beyond ±106751 days (int64 nanoseconds) gives a wrong result"
	}
	return fmt.Sprintf("%s %s %s: wrong result", typ, op, kind)
}

// call runs f and converts a Go panic into a string.
func call(f func()) (panicMsg string) {
	defer func() {
		if p := recover(); p != nil {
			panicMsg = fmt.Sprint(p)
			if panicMsg == "" {
				panicMsg = "panic"
			}
		}
	}()
	f()
	return ""
}

// ---------------------------------------------------------------------------------------------------------
// families on Date

// apply evaluates a ± span. `-` goes through Date.Subtract(Value), the method behind Date#-, which can report an
// error; `+` goes through Date.AddDateSpan, which cannot (the range clause for + is checked at the Elk level).
func apply(da value.Date, op string, span value.DateSpan) (got value.Date, err value.Value, p string) {
	err = value.Undefined
	p = call(func() {
		if op == "+" {
			got = da.AddDateSpan(span)
			return
		}
		var v value.Value
		v, err = da.Subtract(span.ToValue())
		if err.IsUndefined() {
			got = v.AsDate()
		}
	})
	return
}

// outOfRange handles a calendar result outside the year range; reports whether the case is finished.
func outOfRange(r *engine.R, op, expr string, year int64, got value.Date, err value.Value, p string) {
	switch {
	case p != "":
		r.Outcome("out of range: panic")
	case !err.IsUndefined():
		r.Outcome("out of range: error")
	case op == "+":
		r.Count("out_of_range_not_asserted_at_go_api(+ has no error channel; see range-elk)", 1)
	default:
		r.Violation(sigRange, fmt.Sprintf("%s: the calendar result is year %d (outside %d..%d) but the operation returned %s", expr, year, minYear, maxYear, civilOf(got)), expr)
	}
}

func checkDays(r *engine.R, a civil) {
	da := mk(a)
	z := daysFromCivil(a.y, a.m, a.d)
	for _, n := range daySpans {
		wy, wm, wd := civilFromDays(z + n)
		want := civil{wy, wm, wd}
		for _, op := range []string{"+", "-"} {
			sp := value.MakeDateSpan(0, 0, int(n))
			if op == "-" {
				sp = value.MakeDateSpan(0, 0, int(-n))
			}
			got, err, p := apply(da, op, sp)
			expr := fmt.Sprintf("%s %s Date::Span(0, 0, %d)", a, op, map[string]int64{"+": n, "-": -n}[op])
			r.Eval(1)
			if n != 0 {
				r.NT(1)
			}
			switch {
			case !inRange(want.y):
				outOfRange(r, op, expr, want.y, got, err, p)
			case p != "":
				r.Violation("Date "+op+" days: Go panic", expr+": "+p, expr)
			case !err.IsUndefined():
				r.Violation("Date "+op+" days: unexpected error", expr+": "+err.Inspect(), expr)
			case civilOf(got) != want:
				r.Violation(wrongSig("Date", op, "days", a.y, want.y, n), fmt.Sprintf("%s: expected %s, got %s", expr, want, civilOf(got)), expr)
			default:
				r.Outcome("days: exact")
			}
		}
	}
}

func monthTarget(a civil, k int64) (y, m int64) {
	t := a.y*12 + (a.m - 1) + k
	y = floorDiv(t, 12)
	m = t - y*12 + 1
	return
}

func checkMonths(r *engine.R, a civil) {
	da := mk(a)
	for _, k := range monthSpans {
		ty, tm := monthTarget(a, k)
		dim := daysInMonth(ty, tm)
		exact := civil{ty, tm, a.d}
		clamp := civil{ty, tm, dim}
		ry, rm, rd := civilFromDays(daysFromCivil(ty, tm, 1) + a.d - 1)
		roll := civil{ry, rm, rd}
		for _, op := range []string{"+", "-"} {
			sp := value.MakeDateSpan(0, int(k), 0)
			if op == "-" {
				sp = value.MakeDateSpan(0, int(-k), 0)
			}
			got, err, p := apply(da, op, sp)
			expr := fmt.Sprintf("%s %s Date::Span(0, %d, 0)", a, op, map[string]int64{"+": k, "-": -k}[op])
			r.Eval(1)
			r.NT(1)
			g := civilOf(got)
			switch {
			case !inRange(ty):
				outOfRange(r, op, expr, ty, got, err, p)
			case p != "":
				r.Violation("Date "+op+" months: Go panic", expr+": "+p, expr)
			case !err.IsUndefined():
				r.Violation("Date "+op+" months: unexpected error", expr+": "+err.Inspect(), expr)
			case a.d <= dim:
				if g != exact {
					r.Violation(wrongSig("Date", op, "months (day of month exists in the target month)", a.y, ty, 0), fmt.Sprintf("%s: expected %s, got %s", expr, exact, g), expr)
				} else {
					r.Outcome("months: exact")
				}
			case g == clamp:
				r.Outcome("months: day clamped to the end of the month (" + op + ")")
				r.Count("month_overflow_clamped("+op+")", 1)
			case g == roll:
				r.Outcome("months: day rolled over into the next month (" + op + ")")
				r.Count("month_overflow_rolled_over("+op+")", 1)
			default:
				r.Violation(wrongSig("Date", op, "months (neither clamped nor rolled over)", a.y, ty, 0), fmt.Sprintf("%s: expected %s or %s, got %s", expr, clamp, roll, g), expr)
			}
		}
	}
}

func checkDiff(r *engine.R, as []civil, all []civil) {
	for _, a := range as {
		da := mk(a)
		for _, b := range all {
			db := mk(b)
			var got value.Date
			var span value.DateSpan
			p := call(func() {
				span = db.DiffDate(da)
				got = da.AddDateSpan(span)
			})
			r.Eval(1)
			if a != b {
				r.NT(1)
			}
			expr := fmt.Sprintf("a = %s; b = %s; a + (b - a)", a, b)
			if p != "" {
				r.Violation("Date a + (b - a): Go panic", expr+": "+p, expr)
				continue
			}
			if g := civilOf(got); g != b {
				shape := "difference has months and days"
				if span.Days() == 0 || (span.Months() == 0 && span.Years() == 0) {
					shape = "difference is pure"
				}
				r.Violation("Date a + (b - a) != b ("+shape+")", fmt.Sprintf("%s: b - a = %s, a + (b - a) = %s, expected %s", expr, span.String(), g, b), expr)
			} else {
				r.Outcome("diff: a + (b - a) == b")
			}
		}
	}
}

// ---------------------------------------------------------------------------------------------------------
// round trips

type fmtSpec struct {
	f     string
	valid func(c civil) bool // the format determines the date (invertible) for these dates
}

func always(civil) bool { return true }

var dateFormats = []fmtSpec{
	{"%Y-%m-%d", always},
	{"%F", always},
	{"%-Y/%-m/%-d", always},
	{"%_Y %_m %_d", always},
	{"%d.%m.%Y", always},
	{"%Y %j", always},
	{"%-Y %-j", always},
	{"%Y %B %d", always},
	{"%b %e %Y", always},
	{"%^B %-d, %Y", always},
	{"%A %Y-%m-%d", always},
	{"%G-W%V-%u", always},
	{"%Y %W %u", always},
	{"%Y %U %w", always},
	{"%Y %U %a", always},
	{"%C%y-%m-%d", always},
	{"%D", func(c civil) bool { return c.y/100 == int64(time.Now().Year())/100 }},
}

func checkRoundTripDate(r *engine.R, a civil) {
	da := mk(a)
	try := func(name, f, s string, ferr value.Value) {
		r.Eval(1)
		r.NT(1)
		expr := fmt.Sprintf("Date.parse(%s.%s, %q)", a, name, f)
		if !ferr.IsUndefined() {
			r.Violation("Date format error: "+f, expr+": formatting failed: "+ferr.Inspect(), expr)
			return
		}
		var back value.Date
		var perr value.Value
		p := call(func() { back, perr = value.ParseDate(f, s) })
		sig := ""
		switch {
		case p != "":
			sig = "Go panic"
		case !perr.IsUndefined():
			sig = "parse error"
		case civilOf(back) != a:
			sig = "different date"
		default:
			r.Outcome("round trip ok")
			return
		}
		yr := a.y
		if strings.Contains(f, "%G") {
			yr = int64(da.ISOYear()) // the year that is printed
		}
		detail := fmt.Sprintf("%s: text %q", expr, s)
		switch {
		case p != "":
			detail += ": panic " + p
		case !perr.IsUndefined():
			detail += ": " + perr.Inspect()
		default:
			detail += ": parsed back as " + civilOf(back).String()
		}
		if yearClass(yr) != "year 0..9999" {
			// one defect for every format: the year field
			r.Violation("round trip fails for "+yearClass(yr), detail, expr)
			return
		}
		r.Violation(fmt.Sprintf("Date round trip (format %s, year 0..9999): %s", f, sig), detail, expr)
	}
	try("to_string", value.DefaultDateFormat, da.String(), value.Undefined)
	for _, fs := range dateFormats {
		if !fs.valid(a) {
			continue
		}
		var s string
		var ferr value.Value
		if p := call(func() { s, ferr = da.Format(fs.f) }); p != "" {
			r.Violation("Date format: Go panic", fmt.Sprintf("%s.strftime(%q): %s", a, fs.f, p), nil)
			continue
		}
		try(fmt.Sprintf("strftime(%q)", fs.f), fs.f, s, ferr)
	}
}

// ---------------------------------------------------------------------------------------------------------
// DateTime

const nsDay = int64(86400) * 1e9

type dt struct {
	c   civil
	nod int64 // nanoseconds of the local day
	off int64 // zone offset, seconds
}

func (x dt) String() string {
	s := x.nod / 1e9
	sign := "+"
	o := x.off
	if o < 0 {
		sign, o = "-", -o
	}
	return fmt.Sprintf("DateTime(%d-%02d-%02d %02d:%02d:%02d.%09d %s%02d:%02d)", x.c.y, x.c.m, x.c.d, s/3600, s/60%60, s%60, x.nod%1e9, sign, o/3600, o/60%60)
}

// instant returns (UTC day number, nanoseconds of the UTC day).
func (x dt) instant() (int64, int64) {
	days := daysFromCivil(x.c.y, x.c.m, x.c.d)
	n := x.nod - x.off*1e9
	c := floorDiv(n, nsDay)
	return days + c, n - c*nsDay
}

func (x dt) addNanos(t int64) dt {
	td := floorDiv(t, nsDay) // whole days first: nod + t may not fit in int64
	n := x.nod + (t - td*nsDay)
	c := floorDiv(n, nsDay)
	y, m, d := civilFromDays(daysFromCivil(x.c.y, x.c.m, x.c.d) + td + c)
	return dt{civil{y, m, d}, n - c*nsDay, x.off}
}

func zoneOf(off int64) *value.Timezone {
	if off == 0 {
		return nil // local zone; the process runs with TZ=UTC
	}
	return value.NewTimezoneFromOffset(value.TimeSpan(off) * value.Second)
}

func mkDT(x dt) *value.DateTime {
	s := x.nod / 1e9
	return value.NewDateTime(int(x.c.y), int(x.c.m), int(x.c.d), int(s/3600), int(s/60%60), int(s%60), 0, 0, int(x.nod%1e9), zoneOf(x.off))
}

func dtOf(t *value.DateTime) dt {
	nod := (int64(t.Hour())*3600+int64(t.Minute())*60+int64(t.Second()))*1e9 + int64(t.NanosecondsInSecond())
	return dt{civil{int64(t.Year()), int64(t.Month()), int64(t.Day())}, nod, int64(t.ZoneOffsetSeconds())}
}

var dtYears = []int64{-401, -1, 0, 1, 1582, 1970, 2024, 9999, 10000, 4194303}
var dtTimes = []int64{0, nsDay - 1, (12*3600+30*60+15)*1e9 + 5e8}
var dtOffsets = []int64{0, 2 * 3600, -(9*3600 + 30*60)}

func dtsOfYear(y int64) []dt {
	var out []dt
	for _, m := range []int64{1, 2, 3, 12} {
		for _, d := range []int64{1, 28, 29, 31} {
			if d > daysInMonth(y, m) {
				continue
			}
			for _, t := range dtTimes {
				for _, o := range dtOffsets {
					out = append(out, dt{civil{y, m, d}, t, o})
				}
			}
		}
	}
	return out
}

var timeSpans = pm(1, 1e9, 3600*1e9, nsDay-1, nsDay, 25*3600*1e9, 106751*nsDay)

func checkDateTimeArith(r *engine.R, a dt) {
	ta := mkDT(a)
	if g := dtOf(ta); g != a {
		r.Violation("DateTime constructor: fields differ from the arguments", fmt.Sprintf("%s reads back as %s", a, g), a.String())
		return
	}
	cmp := func(op, kind string, days int64, expr string, got *value.DateTime, p string, want dt) {
		r.Eval(1)
		r.NT(1)
		if p != "" {
			r.Violation("DateTime "+op+" "+kind+": Go panic", expr+": "+p, expr)
			return
		}
		if g := dtOf(got); g != want {
			sig := wrongSig("DateTime", op, kind, a.c.y, want.c.y, days)
			if g.c == want.c && g.nod == want.nod {
				sig = "DateTime " + op + " date span: the zone offset of the operand is lost"
			}
			r.Violation(sig, fmt.Sprintf("%s: expected %s, got %s", expr, want, g), expr)
			return
		}
		r.Outcome("datetime: exact")
	}
	for _, t := range timeSpans {
		want := a.addNanos(t)
		if !inRange(want.c.y) {
			continue
		}
		var got *value.DateTime
		p := call(func() { got = ta.AddTimeSpan(value.TimeSpan(t)) })
		cmp("+", "time span", 0, fmt.Sprintf("%s + %dns", a, t), got, p, want)
		p = call(func() { got = ta.SubtractTimeSpan(value.TimeSpan(-t)) })
		cmp("-", "time span", 0, fmt.Sprintf("%s - %dns", a, -t), got, p, want)
	}
	for _, n := range pm(1, 31, 366, 106751, 146097) {
		y, m, d := civilFromDays(daysFromCivil(a.c.y, a.c.m, a.c.d) + n)
		want := dt{civil{y, m, d}, a.nod, a.off}
		if !inRange(y) {
			continue
		}
		var got *value.DateTime
		p := call(func() { got = ta.AddDateSpan(value.MakeDateSpan(0, 0, int(n))) })
		cmp("+", "days", n, fmt.Sprintf("%s + %dD", a, n), got, p, want)
		p = call(func() { got = ta.SubtractDateSpan(value.MakeDateSpan(0, 0, int(-n))) })
		cmp("-", "days", n, fmt.Sprintf("%s - %dD", a, -n), got, p, want)
	}
	for _, k := range pm(1, 12, 13, 4800) {
		ty, tm := monthTarget(a.c, k)
		if !inRange(ty) || a.c.d > daysInMonth(ty, tm) {
			continue // overflow conventions are covered on Date
		}
		want := dt{civil{ty, tm, a.c.d}, a.nod, a.off}
		var got *value.DateTime
		p := call(func() { got = ta.AddDateSpan(value.MakeDateSpan(0, int(k), 0)) })
		cmp("+", "months", 0, fmt.Sprintf("%s + %dM", a, k), got, p, want)
		p = call(func() { got = ta.SubtractDateSpan(value.MakeDateSpan(0, int(-k), 0)) })
		cmp("-", "months", 0, fmt.Sprintf("%s - %dM", a, -k), got, p, want)
	}
}

func checkDateTimeDiff(r *engine.R, as, all []dt) {
	for _, a := range as {
		ta := mkDT(a)
		for _, b := range all {
			tb := mkDT(b)
			var got *value.DateTime
			var span *value.DateTimeSpan
			p := call(func() {
				span = tb.DiffDateTime(ta)
				got = ta.AddDateTimeSpan(span)
			})
			r.Eval(1)
			r.NT(1)
			expr := fmt.Sprintf("a = %s; b = %s; a + (b - a)", a, b)
			if p != "" {
				r.Violation("DateTime a + (b - a): Go panic", expr+": "+p, expr)
				continue
			}
			gd, gn := dtOf(got).instant()
			bd, bn := b.instant()
			if gd != bd || gn != bn {
				zone := "same zone offset"
				if a.off != b.off {
					zone = "different zone offsets"
				}
				r.Violation("DateTime a + (b - a) != b ("+zone+")", fmt.Sprintf("%s: b - a = %s, a + (b - a) = %s which is not the instant of b", expr, span.String(), dtOf(got)), expr)
			} else {
				r.Outcome("datetime diff: a + (b - a) == b")
			}
		}
	}
}

var dtFormats = []struct {
	f     string
	valid func(x dt) bool
	zone  bool // the format carries the zone offset
}{
	{"%Y-%m-%dT%H:%M:%S.%N%z", func(dt) bool { return true }, true},
	{"%F %T.%9N %:z", func(dt) bool { return true }, true},
	{"%d/%m/%Y %I:%M:%S.%N %p %:z", func(dt) bool { return true }, true},
	{"%Y-%m-%d %H:%M:%S.%L %z", func(x dt) bool { return x.nod%1e6 == 0 }, true},
	{"%-Y %-j %-H %-M %-S %-N %z", func(dt) bool { return true }, true},
}

func checkRoundTripDateTime(r *engine.R, a dt) {
	ta := mkDT(a)
	try := func(name, f, s string) {
		r.Eval(1)
		r.NT(1)
		expr := fmt.Sprintf("DateTime.parse(%s.%s, %q)", a, name, f)
		var back *value.DateTime
		var perr value.Value
		p := call(func() { back, perr = value.ParseDateTime(f, s) })
		sig := ""
		switch {
		case p != "":
			sig = "Go panic"
		case !perr.IsUndefined():
			sig = "parse error"
		case dtOf(back) != a:
			sig = "different value"
		default:
			r.Outcome("round trip ok")
			return
		}
		detail := fmt.Sprintf("%s: text %q", expr, s)
		switch {
		case p != "":
			detail += ": panic " + p
		case !perr.IsUndefined():
			detail += ": " + perr.Inspect()
		default:
			detail += ": parsed back as " + dtOf(back).String()
		}
		if yearClass(a.c.y) != "year 0..9999" {
			r.Violation("round trip fails for "+yearClass(a.c.y), detail, expr)
			return
		}
		r.Violation(fmt.Sprintf("DateTime round trip (format %s, year 0..9999): %s", f, sig), detail, expr)
	}
	var s string
	if p := call(func() { s = ta.String() }); p != "" {
		r.Violation("DateTime to_string: Go panic", a.String()+": "+p, nil)
	} else {
		try("to_string", value.DefaultDateTimeFormat, s)
	}
	for _, fs := range dtFormats {
		if !fs.valid(a) {
			continue
		}
		var ferr value.Value
		if p := call(func() { s, ferr = ta.Format(fs.f) }); p != "" {
			r.Violation("DateTime format: Go panic", fmt.Sprintf("%s.strftime(%q): %s", a, fs.f, p), nil)
			continue
		}
		if !ferr.IsUndefined() {
			r.Violation("DateTime format error: "+fs.f, a.String()+": "+ferr.Inspect(), nil)
			continue
		}
		try(fmt.Sprintf("strftime(%q)", fs.f), fs.f, s)
	}
}

// ---------------------------------------------------------------------------------------------------------
// spans

func checkSpans(r *engine.R) {
	const maxI32 = 2147483647
	monthsV := pm(0, 1, 11, 12, 13, 25, 4800, maxI32)
	daysV := pm(0, 1, 31, 366, maxI32)
	for _, mo := range monthsV {
		for _, d := range daysV {
			sp := value.MakeDateSpan(0, int(mo), int(d))
			s := sp.String()
			var back value.DateSpan
			var err value.Value
			p := call(func() { back, err = value.ParseDateSpan(s) })
			r.Eval(1)
			r.NT(1)
			expr := fmt.Sprintf("Date::Span.parse(Date::Span(0, %d, %d).to_string)", mo, d)
			big := "components below 2^31-1"
			if mo == maxI32 || mo == -maxI32 || d == maxI32 || d == -maxI32 {
				big = "component at the Int32 limit"
			}
			switch {
			case p != "":
				r.Violation("Date::Span round trip: Go panic", expr+": "+p, expr)
			case !err.IsUndefined():
				r.Violation("Date::Span round trip: parse error ("+big+")", fmt.Sprintf("%s: text %q: %s", expr, s, err.Inspect()), expr)
			case !back.Equal(sp.ToValue()):
				r.Violation("Date::Span round trip: different span ("+big+")", fmt.Sprintf("%s: text %q parsed back as %q", expr, s, back.String()), expr)
			default:
				r.Outcome("span round trip ok")
			}
		}
	}
	const maxI64 = int64(^uint64(0) >> 1)
	timesV := pm(0, 1, 999, 1000, 1_000_001, 1e9, 59*60*1e9+59*1e9, 3600*1e9, 25*3600*1e9+1, nsDay-1, maxI64)
	for _, t := range timesV {
		sp := value.TimeSpan(t)
		s := sp.String()
		var back value.TimeSpan
		var err value.Value
		p := call(func() { back, err = value.ParseTimeSpan(s) })
		r.Eval(1)
		r.NT(1)
		expr := fmt.Sprintf("Time::Span.parse(%dns.to_string)", t)
		switch {
		case p != "":
			r.Violation("Time::Span round trip: Go panic", expr+": "+p, expr)
		case !err.IsUndefined():
			r.Violation("Time::Span round trip: parse error", fmt.Sprintf("%s: text %q: %s", expr, s, err.Inspect()), expr)
		case back != sp:
			r.Violation("Time::Span round trip: different span", fmt.Sprintf("%s: text %q parsed back as %q (%dns)", expr, s, back.String(), int64(back)), expr)
		default:
			r.Outcome("span round trip ok")
		}
	}
	for _, mo := range pm(0, 1, 13) {
		for _, d := range pm(0, 1, 31) {
			for _, t := range pm(0, 1, 3600*1e9+1, nsDay-1) {
				sp := value.NewDateTimeSpan(value.MakeDateSpan(0, int(mo), int(d)), value.TimeSpan(t))
				s := sp.String()
				var back *value.DateTimeSpan
				var err value.Value
				p := call(func() { back, err = value.ParseDateTimeSpan(s) })
				r.Eval(1)
				r.NT(1)
				expr := fmt.Sprintf("DateTime::Span.parse((Date::Span(0, %d, %d) + %dns).to_string)", mo, d, t)
				switch {
				case p != "":
					r.Violation("DateTime::Span round trip: Go panic", expr+": "+p, expr)
				case !err.IsUndefined():
					r.Violation("DateTime::Span round trip: parse error", fmt.Sprintf("%s: text %q: %s", expr, s, err.Inspect()), expr)
				case !back.Equal(value.Ref(sp)):
					r.Violation("DateTime::Span round trip: different span", fmt.Sprintf("%s: text %q parsed back as %q", expr, s, back.String()), expr)
				default:
					r.Outcome("span round trip ok")
				}
			}
		}
	}
}

// ---------------------------------------------------------------------------------------------------------
// process time zone: the same Date arithmetic in a child process with a DST zone

type tzQuery struct {
	Y, M, D int
	N       int // days
}
type tzAnswer struct {
	Y, M, D int
	Panic   string
}

func tzChild() {
	var qs []tzQuery
	if err := json.NewDecoder(os.Stdin).Decode(&qs); err != nil {
		fmt.Fprintln(os.Stderr, err)
		os.Exit(2)
	}
	out := make([]tzAnswer, len(qs))
	for i, q := range qs {
		out[i].Panic = call(func() {
			d, _ := value.MakeValidatedDate(q.Y, q.M, q.D)
			g := d.AddDateSpan(value.MakeDateSpan(0, 0, q.N))
			out[i].Y, out[i].M, out[i].D = g.Year(), g.Month(), g.Day()
		})
	}
	json.NewEncoder(os.Stdout).Encode(out)
}

func checkTZ(r *engine.R, zone string) {
	if _, err := time.LoadLocation(zone); err != nil {
		r.Note("time zone database has no " + zone + ": tz family skipped")
		r.Capped("no tzdata for " + zone)
		return
	}
	var qs []tzQuery
	for _, y := range []int{1970, 2024} {
		for m := 1; m <= 12; m++ {
			for d := 1; d <= int(daysInMonth(int64(y), int64(m))); d++ {
				for _, n := range []int{-31, -1, 0, 1, 31} {
					qs = append(qs, tzQuery{y, m, d, n})
				}
			}
		}
	}
	exe, _ := os.Executable()
	cmd := exec.Command(exe)
	cmd.Env = append(os.Environ(), "TZ="+zone, "C22_TZCHILD=1")
	in, _ := json.Marshal(qs)
	cmd.Stdin = strings.NewReader(string(in))
	outb, err := cmd.Output()
	if err != nil {
		r.Note("tz child failed: " + err.Error())
		r.Capped("tz child process failed")
		return
	}
	var ans []tzAnswer
	if err := json.Unmarshal(outb, &ans); err != nil || len(ans) != len(qs) {
		r.Capped("tz child output unreadable")
		return
	}
	for i, q := range qs {
		y, m, d := civilFromDays(daysFromCivil(int64(q.Y), int64(q.M), int64(q.D)) + int64(q.N))
		want := civil{y, m, d}
		r.Eval(1)
		r.NT(1)
		expr := fmt.Sprintf("TZ=%s: Date(%d, %d, %d) + Date::Span(0, 0, %d)", zone, q.Y, q.M, q.D, q.N)
		a := ans[i]
		switch {
		case a.Panic != "":
			r.Violation("Date + days under a DST time zone: Go panic", expr+": "+a.Panic, expr)
		case (civil{int64(a.Y), int64(a.M), int64(a.D)}) != want:
			r.Violation("Date + days depends on the process time zone (DST transition)", fmt.Sprintf("%s: expected %s, got Date(%d, %d, %d)", expr, want, a.Y, a.M, a.D), expr)
		default:
			r.Outcome("tz: exact")
		}
	}
}

// ---------------------------------------------------------------------------------------------------------
// Elk level: the range clause and to_string/parse as programs

func checkElk(r *engine.R) {
	type item struct {
		code string
		kind string // "error": an Elk error is required; "value": the printed text
		want string
	}
	items := []item{
		{"d := Date(4194303, 12, 31) + Date::Span(0, 0, 1)\nprintln(d.to_string)", "error", ""},
		{"d := Date(-4194304, 1, 1) - Date::Span(0, 0, 1)\nprintln(d.to_string)", "error", ""},
		{"d := Date(4194303, 12, 1) + Date::Span(0, 1, 0)\nprintln(d.to_string)", "error", ""},
		{"d := Date(4194303, 1, 1) + Date::Span(1, 0, 0)\nprintln(d.to_string)", "error", ""},
		{"d := Date(-4194304, 1, 1) - Date::Span(1, 0, 0)\nprintln(d.to_string)", "error", ""},
		{"d := Date(2024, 2, 28) + Date::Span(0, 0, 2)\nprintln(d.to_string)", "value", "2024-03-01"},
		{"d := Date(2024, 1, 1) + Date::Span(0, 0, 146097)\nprintln(d.to_string)", "value", "2424-01-01"},
		{"d := try Date.parse(Date(-5, 3, 1).to_string)\nprintln(d.year.inspect + \" \" + d.month.inspect + \" \" + d.day.inspect)", "value", "-5 3 1"},
		{"d := try Date.parse(Date(10000, 3, 1).to_string)\nprintln(d.year.inspect + \" \" + d.month.inspect + \" \" + d.day.inspect)", "value", "10000 3 1"},
		{"d := try Date.parse(Date(2024, 3, 1).to_string)\nprintln(d.year.inspect + \" \" + d.month.inspect + \" \" + d.day.inspect)", "value", "2024 3 1"},
		{"a := Date(2024, 2, 29)\nb := Date(2024, 3, 31)\nc := a + (b - a)\nprintln(c.to_string)", "value", "2024-03-31"},
	}
	var its []elkrun.Item
	for _, it := range items {
		its = append(its, elkrun.Item{Code: it.code})
	}
	res := elkrun.Batch("", its, nil)
	for i, ir := range res {
		it := items[i]
		r.Eval(1)
		r.NT(1)
		got := strings.TrimSpace(ir.Out)
		switch {
		case ir.Panic != "":
			r.Violation("Elk level: Go panic "+ir.Panic, it.code+"\n"+ir.Stack, it.code)
		case ir.Rejected:
			r.Note("elk item rejected by the checker: " + it.code + " :: " + ir.Diags)
			r.Capped("an Elk-level probe did not type-check")
		case it.kind == "error":
			if ir.Err == "" {
				r.Violation(sigRange, fmt.Sprintf("Elk level: %s\nexpected an error, printed %q", it.code, got), it.code)
			} else {
				r.Outcome("elk: error raised")
			}
		case ir.Err != "":
			r.Violation(elkSig(it.code), fmt.Sprintf("Elk level: %s\nexpected %q, got error %s", it.code, it.want, ir.Err), it.code)
		case got != it.want:
			r.Violation(elkSig(it.code), fmt.Sprintf("Elk level: %s\nexpected %q, printed %q", it.code, it.want, got), it.code)
		default:
			r.Outcome("elk: expected value")
		}
	}
}

// elkSig files an Elk-level failure under the signature of the same defect at the Go API.
// checkRangeElk: every boundary date ± span whose calendar result is outside the year range, as one Elk program;
// each line must print ERR (an Elk error was raised and caught), never a date.
func checkRangeElk(r *engine.R, ds []civil) {
	var b strings.Builder
	b.WriteString("def t(d: Date, s: Date::Span): String\n  do\n    x := d + s\n    x.to_string\n  catch e\n    \"ERR\"\n  end\nend\n")
	b.WriteString("def u(d: Date, s: Date::Span): String\n  do\n    x := d - s\n    x.to_string\n  catch e\n    \"ERR\"\n  end\nend\n")
	var exprs []string
	for _, a := range ds {
		z := daysFromCivil(a.y, a.m, a.d)
		for _, n := range daySpans {
			if y, _, _ := civilFromDays(z + n); inRange(y) {
				continue
			}
			fmt.Fprintf(&b, "println(t(Date(%d, %d, %d), Date::Span(0, 0, %d)))\nprintln(u(Date(%d, %d, %d), Date::Span(0, 0, %d)))\n", a.y, a.m, a.d, n, a.y, a.m, a.d, -n)
			exprs = append(exprs, fmt.Sprintf("%s + Date::Span(0, 0, %d)", a, n), fmt.Sprintf("%s - Date::Span(0, 0, %d)", a, -n))
		}
		for _, k := range monthSpans {
			if y, _ := monthTarget(a, k); inRange(y) {
				continue
			}
			fmt.Fprintf(&b, "println(t(Date(%d, %d, %d), Date::Span(0, %d, 0)))\nprintln(u(Date(%d, %d, %d), Date::Span(0, %d, 0)))\n", a.y, a.m, a.d, k, a.y, a.m, a.d, -k)
			exprs = append(exprs, fmt.Sprintf("%s + Date::Span(0, %d, 0)", a, k), fmt.Sprintf("%s - Date::Span(0, %d, 0)", a, -k))
		}
	}
	if len(exprs) == 0 {
		return
	}
	res := elkrun.Run(b.String(), nil)
	lines := strings.Split(strings.TrimSpace(res.Stdout), "\n")
	if res.Rejected || res.Panic != "" || res.Err != "" || len(lines) != len(exprs) {
		if res.Panic != "" {
			r.Violation("Elk level: Go panic "+res.PanicSig, res.Stack, nil)
			return
		}
		r.Note("range-elk program did not run to the end: " + res.Outcome() + " " + res.Diags)
		r.Capped("the Elk-level range program failed")
		return
	}
	for i, ln := range lines {
		r.Eval(1)
		r.NT(1)
		if ln != "ERR" {
			r.Violation(sigRange, fmt.Sprintf("Elk level: %s printed %q, expected an error", exprs[i], ln), exprs[i])
		} else {
			r.Outcome("elk: error raised")
		}
	}
}

func elkSig(code string) string {
	switch {
	case strings.Contains(code, "Date(-5"):
		return "round trip fails for year < 0"
	case strings.Contains(code, "Date(10000"):
		return "round trip fails for year > 9999"
	case strings.Contains(code, "Date.parse"):
		return "Date round trip (format %Y-%m-%d, year 0..9999): parse error"
	case strings.Contains(code, "146097"):
		return wrongSig("Date", "+", "days", 2024, 2424, 146097)
	case strings.Contains(code, "b - a"):
		return "Date a + (b - a) != b (difference has months and days)"
	}
	return "Date + days: wrong result"
}

// ---------------------------------------------------------------------------------------------------------

func run(c *engine.Ctx) {
	all := allDates()
	for _, y := range years {
		ds := datesOfYear(y)
		c.Case(fmt.Sprintf("days/%d", y), func(r *engine.R) {
			for _, a := range ds {
				checkDays(r, a)
			}
			r.Sample(fmt.Sprintf("%s ± %d day spans", ds[len(ds)-1], len(daySpans)))
		})
		c.Case(fmt.Sprintf("months/%d", y), func(r *engine.R) {
			for _, a := range ds {
				checkMonths(r, a)
			}
		})
		c.Case(fmt.Sprintf("range-elk/%d", y), func(r *engine.R) { checkRangeElk(r, ds) })
		c.Case(fmt.Sprintf("roundtrip/%d", y), func(r *engine.R) {
			for _, a := range ds {
				checkRoundTripDate(r, a)
			}
			r.Sample(fmt.Sprintf("%s × %d formats", ds[len(ds)-1], len(dateFormats)+1))
		})
		// diff: all b for the a's of one year, in 4 slices
		for q := 0; q < 4; q++ {
			lo, hi := len(ds)*q/4, len(ds)*(q+1)/4
			c.Case(fmt.Sprintf("diff/%d/%d", y, q), func(r *engine.R) {
				checkDiff(r, ds[lo:hi], all)
			})
		}
	}
	var allDT []dt
	for _, y := range dtYears {
		allDT = append(allDT, dtsOfYear(y)...)
	}
	for _, y := range dtYears {
		xs := dtsOfYear(y)
		c.Case(fmt.Sprintf("datetime-arith/%d", y), func(r *engine.R) {
			for _, a := range xs {
				checkDateTimeArith(r, a)
			}
			r.Sample(xs[len(xs)-1].String() + " ± time, day and month spans")
		})
		c.Case(fmt.Sprintf("datetime-roundtrip/%d", y), func(r *engine.R) {
			for _, a := range xs {
				checkRoundTripDateTime(r, a)
			}
		})
		for q := 0; q < 4; q++ {
			lo, hi := len(xs)*q/4, len(xs)*(q+1)/4
			c.Case(fmt.Sprintf("datetime-diff/%d/%d", y, q), func(r *engine.R) {
				checkDateTimeDiff(r, xs[lo:hi], allDT)
			})
		}
	}
	c.Case("spans", checkSpans)
	for _, z := range []string{"Europe/Warsaw", "America/New_York"} {
		z := z
		c.Case("tz/"+z, func(r *engine.R) { checkTZ(r, z) })
	}
	c.Case("elk", checkElk)
}

func main() {
	if os.Getenv("C22_TZCHILD") != "" {
		tzChild()
		return
	}
	// every process of this check (parent and workers) computes in UTC; the tz family varies the zone in a child
	os.Setenv("TZ", "UTC")
	engine.Main(&engine.Spec{
		Prop:  "C22",
		Level: "exploration",
		Rule: "dates: years {±4194304 boundary, -401, -400, -101, -100, -5, -4, -1, 0, 1, 4, 100, 400, 1582, 1970, 2024, 9999, 10000} × 12 months × days {1, 28, 29, 30, 31} (valid ones); " +
			"each date ± day spans {0, ±1, ±31, ±365, ±366, ±106751, ±106752, ±146097, ±(2^31-1)} and ± month spans {±1, ±12, ±13, ±48, ±4800, ±full range}; every ordered pair of dates for a + (b - a) == b; " +
			"every date × to_string and 17 strftime formats parsed back; datetimes = 10 years × 4 months × days {1, 28, 29, 31} × 3 times of day × 3 zone offsets with time/day/month spans, all ordered pairs for diff, 6 formats; " +
			"span to_string → parse over component boundary values; the same Date + days under TZ=Europe/Warsaw and America/New_York for every day of 1970 and 2024; 11 Elk-level programs plus one Elk program per year with every date ± span whose result is outside the year range (an error is required). " +
			"Oracle: Hinnant's days_from_civil/civil_from_days in int64; non-trivial = every evaluation whose span is non-zero / whose operands differ",
		Assume: []string{
			"when the day of month does not exist in the target month, clamping and rolling over are both accepted (not documented)",
			"mixed month+day spans are only exercised through a + (b - a) (the order of application is not documented)",
			"DateTime has no documented year range: only results inside the Date range are compared",
		},
		Setup: func(c *engine.Ctx) {
			elkrun.Init()
			if _, off := time.Now().Zone(); off != 0 {
				panic("C22 worker is not running in UTC")
			}
		},
		Run: run,
	})
}
