// C07 — fixed-width integers wrap modulo 2^n; floats follow IEEE-754.
//
// Bounded-exhaustive:
//   - Int8/UInt8: all 65 536 operand pairs of every binary operator (and every shift amount of every admitted
//     right-operand type) through the two Go-level evaluation families the VM uses — the generic helpers
//     value.XVal (opcodes and the constant folder) and the native methods of vm/intN.go (CALL_METHOD path) —
//     against Go's native int8/uint8 arithmetic;
//   - Int16..Int64, UInt16..UInt64, UInt: all pairs of a boundary-value set, against two's-complement arithmetic
//     on uint64 bit patterns (the same oracle is validated against native int8/uint8 arithmetic on all 8-bit pairs);
//   - shifts `<< >> <<< >>>` with every right-operand type of `AnyInt` the checker accepts: an accepted operand
//     must never raise an error;
//   - Float/Float64/Float32: all pairs of ~40 boundary values for + - * / % ** and the comparisons against Go's
//     float64/float32 arithmetic (bit-exact, NaN compared as NaN);
//   - a VM pass (literal = constant-folded, typed-parameter = opcode, explicit method call) over smaller
//     boundary sets for every operator/type combination.
package main

import (
	"context"
	"fmt"
	"math"
	"math/big"
	"os"
	"os/exec"
	"sort"
	"strconv"
	"strings"
	"syscall"
	"time"

	"github.com/elk-language/elk/value"
	"github.com/elk-language/elk/vm"

	"verifharness/elkrun"
	"verifharness/engine"
)

// ---------------------------------------------------------------------------------------------
// fixed-width integer types

type ityp struct {
	name, suf string
	bits      uint
	signed    bool
	mk        func(u uint64) value.Value
	get       func(v value.Value) (uint64, bool)
}

func (t *ityp) mask() uint64 {
	if t.bits == 64 {
		return ^uint64(0)
	}
	return uint64(1)<<t.bits - 1
}

// sx sign-extends the n-bit pattern u.
func (t *ityp) sx(u uint64) int64 {
	sh := 64 - t.bits
	return int64(u<<sh) >> sh
}

// num is the mathematical value of the bit pattern.
func (t *ityp) num(u uint64) *big.Int {
	if t.signed {
		return big.NewInt(t.sx(u))
	}
	return new(big.Int).SetUint64(u & t.mask())
}

func (t *ityp) maxPattern() uint64 {
	if t.signed {
		return t.mask() >> 1
	}
	return t.mask()
}

// lit is an Elk expression evaluating to the value with bit pattern u.
func (t *ityp) lit(u uint64) string {
	if !t.signed {
		return fmt.Sprintf("%d%s", u&t.mask(), t.suf)
	}
	x := t.sx(u)
	switch {
	case x >= 0:
		return fmt.Sprintf("%d%s", x, t.suf)
	case u&t.mask() == uint64(1)<<(t.bits-1): // the minimum has no literal: `-128i8` is "128i8 negated"
		return fmt.Sprintf("(-%d%s - 1%s)", t.maxPattern(), t.suf, t.suf)
	}
	return fmt.Sprintf("(-%d%s)", -x, t.suf)
}

func (t *ityp) show(u uint64) string { return t.num(u).String() + t.suf }

var ityps = []*ityp{
	{"Int8", "i8", 8, true, func(u uint64) value.Value { return value.Int8(int8(u)).ToValue() },
		func(v value.Value) (uint64, bool) {
			if !v.IsInt8() {
				return 0, false
			}
			return uint64(uint8(v.AsInt8())), true
		}},
	{"Int16", "i16", 16, true, func(u uint64) value.Value { return value.Int16(int16(u)).ToValue() },
		func(v value.Value) (uint64, bool) {
			if !v.IsInt16() {
				return 0, false
			}
			return uint64(uint16(v.AsInt16())), true
		}},
	{"Int32", "i32", 32, true, func(u uint64) value.Value { return value.Int32(int32(u)).ToValue() },
		func(v value.Value) (uint64, bool) {
			if !v.IsInt32() {
				return 0, false
			}
			return uint64(uint32(v.AsInt32())), true
		}},
	{"Int64", "i64", 64, true, func(u uint64) value.Value { return value.Int64(int64(u)).ToValue() },
		func(v value.Value) (uint64, bool) {
			if !v.IsInlineInt64() {
				return 0, false
			}
			return uint64(v.AsInlineInt64()), true
		}},
	{"UInt8", "u8", 8, false, func(u uint64) value.Value { return value.UInt8(uint8(u)).ToValue() },
		func(v value.Value) (uint64, bool) {
			if !v.IsUInt8() {
				return 0, false
			}
			return uint64(v.AsUInt8()), true
		}},
	{"UInt16", "u16", 16, false, func(u uint64) value.Value { return value.UInt16(uint16(u)).ToValue() },
		func(v value.Value) (uint64, bool) {
			if !v.IsUInt16() {
				return 0, false
			}
			return uint64(v.AsUInt16()), true
		}},
	{"UInt32", "u32", 32, false, func(u uint64) value.Value { return value.UInt32(uint32(u)).ToValue() },
		func(v value.Value) (uint64, bool) {
			if !v.IsUInt32() {
				return 0, false
			}
			return uint64(v.AsUInt32()), true
		}},
	{"UInt64", "u64", 64, false, func(u uint64) value.Value { return value.UInt64(u).ToValue() },
		func(v value.Value) (uint64, bool) {
			if !v.IsInlineUInt64() {
				return 0, false
			}
			return uint64(v.AsInlineUInt64()), true
		}},
	{"UInt", "u", 64, false, func(u uint64) value.Value { return value.UInt(u).ToValue() },
		func(v value.Value) (uint64, bool) {
			if !v.IsUInt() {
				return 0, false
			}
			return uint64(v.AsUInt()), true
		}},
}

func itypByName(n string) *ityp {
	for _, t := range ityps {
		if t.name == n {
			return t
		}
	}
	panic(n)
}

// boundary returns the boundary bit patterns of the type (all patterns for 8-bit types when all8 is set).
func (t *ityp) boundary(all8 bool, thorough bool) []uint64 {
	if t.bits == 8 && all8 {
		r := make([]uint64, 256)
		for i := range r {
			r[i] = uint64(i)
		}
		return r
	}
	m := t.mask()
	n := t.bits
	var vs []uint64
	add := func(u uint64) {
		u &= m
		for _, v := range vs {
			if v == u {
				return
			}
		}
		vs = append(vs, u)
	}
	for _, k := range []uint64{0, 1, 2, 3, 7, 10} {
		add(k)
	}
	for _, k := range []uint64{1, 2, 3, 7, 10} {
		add(-k) // two's complement of small negatives = top of the unsigned range
	}
	sb := uint64(1) << (n - 1)
	add(sb)
	add(sb - 1)
	add(sb + 1)
	add(sb - 2)
	add(sb >> 1)
	add(sb | sb>>1)
	h := uint64(1) << (n / 2)
	add(h)
	add(h - 1)
	add(h + 1)
	add(-h)
	add(0x5555555555555555)
	add(0xAAAAAAAAAAAAAAAA)
	add(0x0123456789ABCDEF)
	add(0xB504F333F9DE6484) // sqrt(2) * 2^63: products overflow by one bit
	if thorough {
		add(5)
		add(^uint64(4))
		add(sb + 2)
		add(h + 2)
		add(h - 2)
		add(-h + 1)
		add(-h - 1)
		add(0x00FF00FF00FF00FF)
		add(0xFEDCBA9876543210)
		add(0x3333333333333333)
		add(100)
		add(^uint64(99))
	}
	return vs
}

// small boundary set for the VM pass.
func (t *ityp) vmValues(thorough bool) []uint64 {
	m := t.mask()
	sb := uint64(1) << (t.bits - 1)
	vs := []uint64{0, 1, 3, m, sb, sb - 1}
	if thorough {
		vs = append(vs, 2, m-1, sb+1, 0x5555555555555555&m, 10, (^uint64(6))&m)
	}
	return vs
}

// ---------------------------------------------------------------------------------------------
// integer oracle on bit patterns

const (
	kTyped = iota // result of the operand type
	kBool
	kCmp // -1 / 0 / 1
)

type ibop struct {
	sym  string
	name string
	kind int
	val  func(l, r value.Value) (value.Value, value.Value)
}

func noerr(f func(l, r value.Value) value.Value) func(l, r value.Value) (value.Value, value.Value) {
	return func(l, r value.Value) (value.Value, value.Value) { return f(l, r), value.Undefined }
}

var ibops = []ibop{
	{"+", "add", kTyped, value.AddVal},
	{"-", "sub", kTyped, value.SubtractVal},
	{"*", "mul", kTyped, value.MultiplyVal},
	{"/", "div", kTyped, value.DivideVal},
	{"%", "mod", kTyped, value.ModuloVal},
	{"**", "pow", kTyped, value.ExponentiateVal},
	{"&", "and", kTyped, value.BitwiseAndVal},
	{"|", "or", kTyped, value.BitwiseOrVal},
	{"^", "xor", kTyped, value.BitwiseXorVal},
	{"&~", "andnot", kTyped, value.BitwiseAndNotVal},
	{"<=>", "cmp", kCmp, value.CompareVal},
	{"<", "lt", kBool, value.LessThanVal},
	{"<=", "le", kBool, value.LessThanEqualVal},
	{">", "gt", kBool, value.GreaterThanVal},
	{">=", "ge", kBool, value.GreaterThanEqualVal},
	{"==", "eq", kBool, noerr(value.EqualVal)},
}

func powMod64(a, e uint64) uint64 {
	r := uint64(1)
	for e > 0 {
		if e&1 == 1 {
			r *= a
		}
		a *= a
		e >>= 1
	}
	return r
}

// refBin is two's-complement arithmetic modulo 2^bits on the patterns a and b.
// defined=false: division by zero (an error is expected). skip=true: the statement does not define the case
// (negative exponent).
func refBin(t *ityp, sym string, a, b uint64) (res uint64, defined, skip bool) {
	m := t.mask()
	a &= m
	b &= m
	cmp := func() int {
		if t.signed {
			x, y := t.sx(a), t.sx(b)
			switch {
			case x < y:
				return -1
			case x > y:
				return 1
			}
			return 0
		}
		switch {
		case a < b:
			return -1
		case a > b:
			return 1
		}
		return 0
	}
	bo := func(c bool) uint64 {
		if c {
			return 1
		}
		return 0
	}
	switch sym {
	case "+":
		return (a + b) & m, true, false
	case "-":
		return (a - b) & m, true, false
	case "*":
		return (a * b) & m, true, false
	case "/":
		if b == 0 {
			return 0, false, false
		}
		if t.signed {
			x, y := t.sx(a), t.sx(b)
			if y == -1 {
				return uint64(-x) & m, true, false
			}
			return uint64(x/y) & m, true, false
		}
		return (a / b) & m, true, false
	case "%":
		if b == 0 {
			return 0, false, false
		}
		if t.signed {
			x, y := t.sx(a), t.sx(b)
			if y == -1 {
				return 0, true, false
			}
			return uint64(x%y) & m, true, false
		}
		return (a % b) & m, true, false
	case "**":
		if t.signed && t.sx(b) < 0 {
			return 0, true, true
		}
		return powMod64(a, b) & m, true, false
	case "&":
		return a & b, true, false
	case "|":
		return a | b, true, false
	case "^":
		return a ^ b, true, false
	case "&~":
		return a &^ b, true, false
	case "<=>":
		return uint64(int64(cmp())), true, false
	case "<":
		return bo(cmp() < 0), true, false
	case "<=":
		return bo(cmp() <= 0), true, false
	case ">":
		return bo(cmp() > 0), true, false
	case ">=":
		return bo(cmp() >= 0), true, false
	case "==":
		return bo(cmp() == 0), true, false
	}
	panic("refBin " + sym)
}

// native8 is Go's own int8/uint8 arithmetic (the reference the 8-bit space is compared with).
func native8(signed bool, sym string, a, b uint8) (res uint64, defined bool) {
	bo := func(c bool) uint64 {
		if c {
			return 1
		}
		return 0
	}
	if signed {
		x, y := int8(a), int8(b)
		var z int8
		switch sym {
		case "+":
			z = x + y
		case "-":
			z = x - y
		case "*":
			z = x * y
		case "/":
			if y == 0 {
				return 0, false
			}
			z = x / y
		case "%":
			if y == 0 {
				return 0, false
			}
			z = x % y
		case "**":
			z = 1
			for i := 0; i < int(y); i++ {
				z *= x
			}
		case "&":
			z = x & y
		case "|":
			z = x | y
		case "^":
			z = x ^ y
		case "&~":
			z = x &^ y
		case "<=>":
			switch {
			case x < y:
				return ^uint64(0), true
			case x > y:
				return 1, true
			}
			return 0, true
		case "<":
			return bo(x < y), true
		case "<=":
			return bo(x <= y), true
		case ">":
			return bo(x > y), true
		case ">=":
			return bo(x >= y), true
		case "==":
			return bo(x == y), true
		}
		return uint64(uint8(z)), true
	}
	x, y := a, b
	var z uint8
	switch sym {
	case "+":
		z = x + y
	case "-":
		z = x - y
	case "*":
		z = x * y
	case "/":
		if y == 0 {
			return 0, false
		}
		z = x / y
	case "%":
		if y == 0 {
			return 0, false
		}
		z = x % y
	case "**":
		z = 1
		for i := 0; i < int(y); i++ {
			z *= x
		}
	case "&":
		z = x & y
	case "|":
		z = x | y
	case "^":
		z = x ^ y
	case "&~":
		z = x &^ y
	case "<=>":
		switch {
		case x < y:
			return ^uint64(0), true
		case x > y:
			return 1, true
		}
		return 0, true
	case "<":
		return bo(x < y), true
	case "<=":
		return bo(x <= y), true
	case ">":
		return bo(x > y), true
	case ">=":
		return bo(x >= y), true
	case "==":
		return bo(x == y), true
	}
	return uint64(z), true
}

// refShift: `<<`/`>>` arithmetic, `<<<`/`>>>` logical; a negative amount shifts the other way (headers/int8.elh).
func refShift(t *ityp, sym string, a uint64, n *big.Int) uint64 {
	m := t.mask()
	a &= m
	left := sym == "<<" || sym == "<<<"
	logical := sym == "<<<" || sym == ">>>" || !t.signed
	k := new(big.Int).Set(n)
	if k.Sign() < 0 {
		left = !left
		k.Neg(k)
	}
	huge := k.BitLen() > 16 || k.Uint64() >= uint64(t.bits)
	var c uint
	if !huge {
		c = uint(k.Uint64())
	}
	switch {
	case left:
		if huge {
			return 0
		}
		return (a << c) & m
	case logical:
		if huge {
			return 0
		}
		return a >> c
	default:
		x := t.sx(a)
		if huge {
			if x < 0 {
				return m
			}
			return 0
		}
		return uint64(x>>c) & m
	}
}

// nativeShift8 is the same with Go's native 8-bit shifts (reference for the 8-bit space).
func nativeShift8(signed bool, sym string, a uint8, n int) uint8 {
	left := sym == "<<" || sym == "<<<"
	logical := sym == "<<<" || sym == ">>>" || !signed
	if n < 0 {
		left = !left
		n = -n
	}
	c := uint(n)
	switch {
	case left:
		return a << c
	case logical:
		return a >> c
	default:
		return uint8(int8(a) >> c)
	}
}

// ---------------------------------------------------------------------------------------------
// evaluation families

var th *vm.Thread

type outcome struct {
	val   value.Value
	err   value.Value
	panic string
}

func guard(f func() (value.Value, value.Value)) (o outcome) {
	defer func() {
		if p := recover(); p != nil {
			msg := fmt.Sprint(p)
			if i := strings.IndexByte(msg, '\n'); i >= 0 {
				msg = msg[:i]
			}
			if len(msg) > 80 {
				msg = msg[:80]
			}
			o = outcome{value.Undefined, value.Undefined, msg}
		}
	}()
	v, e := f()
	return outcome{v, e, ""}
}

var families = []string{"val", "method"}

func evalBin(family, sym string, val func(l, r value.Value) (value.Value, value.Value), l, r value.Value) outcome {
	if family == "val" {
		o := guard(func() (value.Value, value.Value) { return val(l, r) })
		if o.panic != "" || !o.val.IsUndefined() || !o.err.IsUndefined() {
			return o
		}
		// (undefined, undefined): no builtin fast path, the VM falls back to the method call
	}
	return guard(func() (value.Value, value.Value) { return th.CallMethodByName(value.ToSymbol(sym), l, r) })
}

func errClass(e value.Value) string {
	if e.IsUndefined() {
		return ""
	}
	return e.Class().Name
}

func insp(v value.Value) string {
	if v.IsUndefined() {
		return "<undefined>"
	}
	return v.Inspect()
}

// joint names the failure of one input by the evaluation paths that show it: "val" = value.XVal (opcodes and the
// constant folder), "method" = the native method (CALL_METHOD path).
func joint(kv, km string) []string {
	switch {
	case kv == "" && km == "":
		return nil
	case kv == km:
		return []string{kv + " [val+method paths]"}
	case kv == "":
		return []string{km + " [method path only]"}
	case km == "":
		return []string{kv + " [val path only]"}
	}
	return []string{kv + " [val path]", km + " [method path]"}
}

// ---------------------------------------------------------------------------------------------
// failure aggregation: one signature per (case, failure kind); the dimensions in which the failure was seen
// are summarised ("*" when every evaluated value of the dimension fails).

type failGroup struct {
	kind    string
	dims    []map[string]bool
	samples []string
	count   int
	input   string
}

type failSet struct {
	prefix   string
	dimNames []string
	seen     []map[string]bool
	groups   map[string]*failGroup
	order    []string
}

func newFailSet(prefix string, dimNames ...string) *failSet {
	fs := &failSet{prefix: prefix, dimNames: dimNames, groups: map[string]*failGroup{}}
	for range dimNames {
		fs.seen = append(fs.seen, map[string]bool{})
	}
	return fs
}

func (fs *failSet) see(dims ...string) {
	for i, d := range dims {
		fs.seen[i][d] = true
	}
}

func (fs *failSet) fail(kind string, detail string, dims ...string) {
	g := fs.groups[kind]
	if g == nil {
		g = &failGroup{kind: kind}
		for range fs.dimNames {
			g.dims = append(g.dims, map[string]bool{})
		}
		fs.groups[kind] = g
		fs.order = append(fs.order, kind)
	}
	for i, d := range dims {
		g.dims[i][d] = true
	}
	g.count++
	if len(g.samples) < 6 {
		g.samples = append(g.samples, detail)
	}
}

func keys(m map[string]bool) []string {
	var k []string
	for s := range m {
		k = append(k, s)
	}
	sort.Strings(k)
	return k
}

func (fs *failSet) flush(r *engine.R) {
	sort.Strings(fs.order)
	for _, kind := range fs.order {
		g := fs.groups[kind]
		var parts []string
		for i, n := range fs.dimNames {
			ks := keys(g.dims[i])
			s := strings.Join(ks, ",")
			if len(ks) == len(fs.seen[i]) && len(ks) > 1 {
				s = "*"
			}
			parts = append(parts, n+"="+s)
		}
		sig := fmt.Sprintf("%s %s: %s", fs.prefix, strings.Join(parts, " "), kind)
		r.Violation(sig, fmt.Sprintf("%d failing evaluation(s) in this case, e.g.\n%s", g.count, strings.Join(g.samples, "\n")), g.samples[0])
		r.Count("failing_evaluations", g.count)
	}
}

// ---------------------------------------------------------------------------------------------
// shift amounts: every right-operand type of AnyInt

type amount struct {
	rtype string // Int, BigInt (a big Int), Int8 ...
	n     *big.Int
	v     value.Value
	lit   string
}

func (a amount) class(leftBits uint) string {
	k := new(big.Int).Abs(a.n)
	s := ""
	if a.n.Sign() < 0 {
		s = "neg"
	}
	switch {
	case a.n.Sign() == 0:
		return "0"
	case k.BitLen() > 16 || k.Uint64() >= uint64(leftBits):
		return s + ">=width"
	}
	return s + "<width"
}

var rtypeNames = []string{"Int", "Int8", "Int16", "Int32", "Int64", "UInt8", "UInt16", "UInt32", "UInt64", "UInt"}

func bigLit(z *big.Int) string {
	if z.Sign() < 0 {
		return "(" + z.String() + ")"
	}
	return z.String()
}

// amounts returns the shift amounts of right-operand type rt. full8: all values of the 8-bit types.
func amounts(rt string, full8 bool, vmSet bool) []amount {
	base := []int64{0, 1, 2, 7, 8, 9, 15, 16, 17, 31, 32, 33, 63, 64, 65, 127, 128, 255, 256, 1000}
	if vmSet {
		base = []int64{0, 1, 7, 8, 63, 64, 65}
	}
	var out []amount
	if rt == "Int" {
		var ns []*big.Int
		for _, b := range base {
			ns = append(ns, big.NewInt(b))
			if b != 0 && (!vmSet || b == 1 || b == 8 || b == 64) {
				ns = append(ns, big.NewInt(-b))
			}
		}
		if !vmSet {
			ns = append(ns, big.NewInt(math.MaxInt64), big.NewInt(math.MinInt64), big.NewInt(math.MinInt64+1), big.NewInt(1<<62))
		}
		p64 := new(big.Int).Lsh(big.NewInt(1), 64)
		ns = append(ns, p64, new(big.Int).Neg(p64))
		if !vmSet {
			ns = append(ns, new(big.Int).Lsh(big.NewInt(1), 63), new(big.Int).Add(p64, big.NewInt(1)))
		}
		for _, n := range ns {
			out = append(out, amount{"Int", n, value.ToElkBigInt(new(big.Int).Set(n)).Normalize(), bigLit(n)})
		}
		return out
	}
	t := itypByName(rt)
	seen := map[uint64]bool{}
	addp := func(u uint64) {
		u &= t.mask()
		if seen[u] {
			return
		}
		seen[u] = true
		out = append(out, amount{rt, t.num(u), t.mk(u), t.lit(u)})
	}
	if t.bits == 8 && full8 {
		for i := 0; i < 256; i++ {
			addp(uint64(i))
		}
		return out
	}
	for _, b := range base {
		if new(big.Int).SetInt64(b).Cmp(t.num(t.maxPattern())) <= 0 {
			addp(uint64(b))
			if t.signed && b != 0 && (!vmSet || b == 1 || b == 8 || b == 64) {
				addp(uint64(-b))
			}
		}
	}
	addp(t.maxPattern())
	if t.signed && !vmSet {
		addp(t.maxPattern() + 1) // minimum
		addp(t.maxPattern() + 2)
	}
	if t.signed && vmSet {
		addp(t.maxPattern() + 1)
	}
	return out
}

var shiftOps = []struct {
	sym, name string
	val       func(l, r value.Value) (value.Value, value.Value)
}{
	{"<<", "shl", value.LeftBitshiftVal},
	{">>", "shr", value.RightBitshiftVal},
	{"<<<", "lshl", value.LogicalLeftBitshiftVal},
	{">>>", "lshr", value.LogicalRightBitshiftVal},
}

// accepted reports whether the checker accepts `a <op> b` for a: lt, b: rt (the header says AnyInt).
func accepted(sym string, lt *ityp, rt string) (bool, string) {
	src := fmt.Sprintf("def f(a: %s, b: %s): %s then a %s b\n", lt.name, rt, lt.name, sym)
	res := elkrun.Run(src, &elkrun.Options{NoRun: true})
	if res.Panic != "" {
		return false, "checker panic " + res.PanicSig
	}
	return !res.Rejected, res.Diags
}

// ---------------------------------------------------------------------------------------------
// floats

type ftyp struct {
	name, suf string
	bits      int
	mk        func(x float64) value.Value
	get       func(v value.Value) (float64, bool)
}

var ftyps = []*ftyp{
	{"Float", "", 64, func(x float64) value.Value { return value.Float(x).ToValue() },
		func(v value.Value) (float64, bool) {
			if !v.IsFloat() {
				return 0, false
			}
			return float64(v.AsFloat()), true
		}},
	{"Float64", "f64", 64, func(x float64) value.Value { return value.Float64(x).ToValue() },
		func(v value.Value) (float64, bool) {
			if !v.IsInlineFloat64() {
				return 0, false
			}
			return float64(v.AsInlineFloat64()), true
		}},
	{"Float32", "f32", 32, func(x float64) value.Value { return value.Float32(float32(x)).ToValue() },
		func(v value.Value) (float64, bool) {
			if !v.IsFloat32() {
				return 0, false
			}
			return float64(v.AsFloat32()), true
		}},
}

func (t *ftyp) values(vmSet, thorough bool) []float64 {
	var vs []float64
	add := func(x float64) {
		if t.bits == 32 {
			x = float64(float32(x))
		}
		for _, v := range vs {
			if math.Float64bits(v) == math.Float64bits(x) {
				return
			}
		}
		vs = append(vs, x)
	}
	pm := func(x float64) { add(x); add(-x) }
	if vmSet && !thorough {
		pm(0)
		pm(1.5)
		add(3)
		add(0.1)
		add(math.Inf(1))
		add(math.NaN())
		if t.bits == 32 {
			add(16777216)
			add(float64(math.SmallestNonzeroFloat32))
			add(float64(math.MaxFloat32))
		} else {
			add(9007199254740992)
			add(math.SmallestNonzeroFloat64)
			add(math.MaxFloat64)
		}
		return vs
	}
	pm(0)
	pm(1)
	pm(0.5)
	pm(1.5)
	pm(2)
	pm(3)
	add(0.1)
	add(0.3)
	add(-2.5)
	add(10)
	add(math.Pi)
	pm(math.Inf(1))
	add(math.NaN())
	if t.bits == 32 {
		pm(float64(math.SmallestNonzeroFloat32))
		pm(float64(math.Float32frombits(0x007FFFFF))) // largest subnormal
		pm(float64(math.Float32frombits(0x00800000))) // smallest normal
		pm(float64(math.MaxFloat32))
		add(float64(math.MaxFloat32) / 2)
		add(16777215)
		add(16777216)
		add(16777218)
		add(-16777216)
		add(float64(math.Float32frombits(0x3F800001))) // 1 + ulp
		add(float64(math.Float32frombits(0x3F7FFFFF))) // 1 - ulp/2
		add(1e-10)
		add(1e10)
		add(1e20)
		add(4294967296)
	} else {
		pm(math.SmallestNonzeroFloat64)
		pm(math.Float64frombits(0x000FFFFFFFFFFFFF)) // largest subnormal
		pm(math.Float64frombits(0x0010000000000000)) // smallest normal
		pm(math.MaxFloat64)
		add(math.MaxFloat64 / 2)
		add(16777215)
		add(16777217)
		add(9007199254740991)
		add(9007199254740992)
		add(9007199254740994)
		add(-9007199254740992)
		add(math.Float64frombits(0x3FF0000000000001)) // 1 + ulp
		add(math.Float64frombits(0x3FEFFFFFFFFFFFFF)) // 1 - ulp/2
		add(1e-10)
		add(1e16)
		add(1e200)
		add(18446744073709551616)
	}
	return vs
}

var fbops = []ibop{
	{"+", "add", kTyped, value.AddVal},
	{"-", "sub", kTyped, value.SubtractVal},
	{"*", "mul", kTyped, value.MultiplyVal},
	{"/", "div", kTyped, value.DivideVal},
	{"%", "mod", kTyped, value.ModuloVal},
	{"**", "pow", kTyped, value.ExponentiateVal},
	{"<=>", "cmp", kCmp, value.CompareVal},
	{"<", "lt", kBool, value.LessThanVal},
	{"<=", "le", kBool, value.LessThanEqualVal},
	{">", "gt", kBool, value.GreaterThanVal},
	{">=", "ge", kBool, value.GreaterThanEqualVal},
	{"==", "eq", kBool, noerr(value.EqualVal)},
}

// refFloat computes the IEEE-754 result of the width with Go's arithmetic. For kCmp the result is -1/0/1 or
// NaN meaning "unordered" (nil).
func refFloat(t *ftyp, sym string, a, b float64) (res float64, isBool bool, bres bool) {
	if t.bits == 32 {
		x, y := float32(a), float32(b)
		switch sym {
		case "+":
			return float64(x + y), false, false
		case "-":
			return float64(x - y), false, false
		case "*":
			return float64(x * y), false, false
		case "/":
			return float64(x / y), false, false
		case "%":
			return float64(float32(math.Mod(float64(x), float64(y)))), false, false
		case "**":
			return float64(float32(math.Pow(float64(x), float64(y)))), false, false
		}
	} else {
		switch sym {
		case "+":
			return a + b, false, false
		case "-":
			return a - b, false, false
		case "*":
			return a * b, false, false
		case "/":
			return a / b, false, false
		case "%":
			return math.Mod(a, b), false, false
		case "**":
			return math.Pow(a, b), false, false
		}
	}
	switch sym {
	case "<=>":
		switch {
		case a != a || b != b:
			return math.NaN(), false, false
		case a < b:
			return -1, false, false
		case a > b:
			return 1, false, false
		}
		return 0, false, false
	case "<":
		return 0, true, a < b
	case "<=":
		return 0, true, a <= b
	case ">":
		return 0, true, a > b
	case ">=":
		return 0, true, a >= b
	case "==":
		return 0, true, a == b
	}
	panic("refFloat " + sym)
}

func fclass(x float64) string {
	switch {
	case x != x:
		return "nan"
	case math.IsInf(x, 0):
		return "inf"
	case x == 0:
		if math.Signbit(x) {
			return "-0"
		}
		return "0"
	}
	return "finite"
}

func (t *ftyp) show(x float64) string { return t.mk(x).Inspect() }

// lit is an Elk expression for the value (never relying on a `-0.0` Float constant, see the float-literal case).
func (t *ftyp) lit(x float64) string {
	switch {
	case x != x:
		if t.suf == "" {
			return "Float::NAN"
		}
		return fmt.Sprintf("(0.0%s / 0.0%s)", t.suf, t.suf)
	case math.IsInf(x, 1):
		if t.suf == "" {
			return "Float::INF"
		}
		return fmt.Sprintf("(1.0%s / 0.0%s)", t.suf, t.suf)
	case math.IsInf(x, -1):
		if t.suf == "" {
			return "Float::NEG_INF"
		}
		return fmt.Sprintf("(-1.0%s / 0.0%s)", t.suf, t.suf)
	case x == 0 && math.Signbit(x):
		if t.suf == "" {
			return "(-fzero())"
		}
		return "(-0.0" + t.suf + ")"
	}
	s := strconv.FormatFloat(math.Abs(x), 'g', -1, t.bits)
	if !strings.ContainsAny(s, ".e") {
		s += ".0"
	} else if strings.Contains(s, "e") && !strings.Contains(s, ".") {
		// 5e-324 is fine as it is
	}
	s += t.suf
	if x < 0 {
		return "(-" + s + ")"
	}
	return s
}

const floatPrelude = "def fzero: Float then 0.0\n"

// ---------------------------------------------------------------------------------------------

func main() {
	if len(os.Args) == 3 && os.Args[1] == "-powprobe" {
		powProbe(os.Args[2])
		return
	}
	engine.Main(&engine.Spec{
		Prop:  "C07",
		Level: "exploration",
		Rule: "Go level (families value.XVal = opcodes/constant folder, and native methods via Thread.CallMethodByName): Int8/UInt8 all 65 536 pairs per binary operator and all 256 left values x every shift amount (all 256 Int8/UInt8 amounts, ~25 boundary amounts of each other AnyInt member incl. big Int) against Go's native int8/uint8 arithmetic; " +
			"Int16..Int64, UInt16..UInt64, UInt: all pairs of ~28 boundary patterns (thorough ~40) against two's-complement arithmetic on bit patterns; shifts only for (operator, left type, right type) combinations the checker accepts; " +
			"floats: all pairs of ~40 boundary values (signed zeros, subnormals, 2^24/2^53 neighbourhood, max, infinities, NaN) per Float/Float64/Float32 x {+ - * / % ** <=> < <= > >= ==} bit-exact against Go float64/float32 arithmetic; " +
			"VM pass: literal (constant-folded) / typed-parameter (opcode) / explicit method-call forms over 6 (thorough 12) boundary values per type and 8-10 amounts per right-operand type, reported only when the Go-level family is itself correct; " +
			"non-trivial = result differs from the unbounded mathematical result (wrap-around), or a shift, or a float pair involving a special value; cases are enumerated without repetition",
		Assume: []string{"Go's sized integer and float32/float64 arithmetic on amd64 is two's-complement / IEEE-754", "math.Mod and math.Pow are taken as the reference for % and ** (float32: computed in float64 and rounded once)",
			"** with an exponent equal to the maximum of the type is probed only for 8/16-bit types (in a child process limited to 10 s of CPU time); 32/64-bit exponents are bounded by 1000 because the implementation is a linear loop"},
		Setup: func(c *engine.Ctx) {
			elkrun.Init()
			th = vm.New()
		},
		Run:         run,
		CaseTimeout: 10 * time.Minute,
	})
}

func run(c *engine.Ctx) {
	selfCheckOracle()
	for _, op := range ibops {
		goIntBinary(c, op)
	}
	goIntUnary(c)
	goPowMax(c)
	goShift(c)
	for _, op := range fbops {
		goFloatBinary(c, op)
	}
	goFloatUnary(c)
	vmFloatLiterals(c)
	for _, t := range ityps {
		for _, op := range ibops {
			vmIntBinary(c, t, op)
		}
		vmIntUnary(c, t)
	}
	for _, so := range shiftOps {
		for _, lt := range ityps {
			if !lt.signed && (so.sym == "<<<" || so.sym == ">>>") {
				continue // the unsigned headers declare no logical shifts
			}
			for _, rt := range rtypeNames {
				vmShift(c, so.sym, so.name, so.val, lt, rt)
			}
		}
	}
	for _, t := range ftyps {
		for _, op := range fbops {
			vmFloatBinary(c, t, op)
		}
	}
}

// selfCheckOracle validates the bit-pattern oracle against Go's native 8-bit arithmetic on the whole 8-bit space
// (in every worker; a mismatch is a harness bug, not a finding).
func selfCheckOracle() {
	for _, t := range []*ityp{itypByName("Int8"), itypByName("UInt8")} {
		for _, op := range ibops {
			for a := 0; a < 256; a++ {
				for b := 0; b < 256; b++ {
					w, def, skip := refBin(t, op.sym, uint64(a), uint64(b))
					if skip {
						continue
					}
					n, ndef := native8(t.signed, op.sym, uint8(a), uint8(b))
					if op.kind == kTyped {
						n &= 0xFF
					}
					if def != ndef || (def && w != n) {
						panic(fmt.Sprintf("oracle self-check: %s %d %s %d: %d/%v vs native %d/%v", t.name, a, op.sym, b, w, def, n, ndef))
					}
				}
			}
		}
		for _, so := range shiftOps {
			for a := 0; a < 256; a++ {
				for n := -300; n <= 300; n++ {
					w := refShift(t, so.sym, uint64(a), big.NewInt(int64(n)))
					if g := nativeShift8(t.signed, so.sym, uint8(a), n); uint64(g) != w {
						panic(fmt.Sprintf("oracle self-check: %s %d %s %d: %d vs native %d", t.name, a, so.sym, n, w, g))
					}
				}
			}
		}
	}
}

func wantValue(t *ityp, kind int, res uint64) value.Value {
	switch kind {
	case kBool:
		return value.BoolVal(res != 0)
	case kCmp:
		return value.SmallInt(int64(res)).ToValue()
	}
	return t.mk(res)
}

func sameValue(got, want value.Value) bool {
	return !got.IsUndefined() && got.ValueFlag() == want.ValueFlag() && !got.IsReference() && got.Inspect() == want.Inspect()
}

// maxExp bounds the exponents evaluated for ** (the implementation is a linear loop; MAX of the type is probed separately).
func expOK(t *ityp, b uint64) bool {
	b &= t.mask()
	if t.signed && t.sx(b) < 0 {
		return false
	}
	if b == t.maxPattern() {
		return false
	}
	if t.bits >= 32 {
		return b <= 1000
	}
	return true
}

// classify compares one outcome with the oracle and returns "" or the failure kind.
func classifyInt(o outcome, t *ityp, kind int, res uint64, defined bool) string {
	switch {
	case o.panic != "":
		return "go-panic " + engine.PanicSig(o.panic, "")
	case !defined:
		if errClass(o.err) == "Std::ZeroDivisionError" {
			return ""
		}
		if !o.err.IsUndefined() {
			return "zero divisor raises " + errClass(o.err)
		}
		return "zero divisor: no error"
	case !o.err.IsUndefined():
		return "raises " + errClass(o.err)
	case o.val.IsUndefined():
		return "no builtin result"
	}
	want := wantValue(t, kind, res)
	if sameValue(o.val, want) {
		return ""
	}
	if o.val.ValueFlag() != want.ValueFlag() || o.val.IsReference() {
		return "result of class " + o.val.Class().Name
	}
	return "wrong value"
}

func goIntBinary(c *engine.Ctx, op ibop) {
	c.Case("go/int/"+op.name, func(r *engine.R) {
		fs := newFailSet("int op="+op.name+" "+op.sym, "type")
		for _, t := range ityps {
			vs := t.boundary(true, c.Thorough)
			for _, a := range vs {
				for _, b := range vs {
					res, defined, skip := refBin(t, op.sym, a, b)
					if skip || (op.sym == "**" && !expOK(t, b)) {
						r.Count("pairs_outside_the_statement_or_bounded_out", 1)
						continue
					}
					if t.bits == 8 {
						// the reference for the 8-bit space is Go's native arithmetic
						n, ndef := native8(t.signed, op.sym, uint8(a), uint8(b))
						if op.kind == kTyped {
							n &= 0xFF
						}
						res, defined = n, ndef
					}
					nt := !defined
					if op.kind == kTyped && defined && op.sym != "&" && op.sym != "|" && op.sym != "^" && op.sym != "&~" {
						nt = nt || exactDiffers(t, op.sym, a, b, res)
					}
					if nt {
						r.NT(1)
					}
					fs.see(t.name)
					var ks [2]string
					var os [2]outcome
					for i, fam := range families {
						os[i] = evalBin(fam, op.sym, op.val, t.mk(a), t.mk(b))
						r.Eval(1)
						ks[i] = classifyInt(os[i], t, op.kind, res, defined)
					}
					js := joint(ks[0], ks[1])
					if js == nil {
						switch {
						case !defined:
							r.Outcome("ZeroDivisionError")
						case nt:
							r.Outcome("wrapped")
						default:
							r.Outcome("exact")
						}
						continue
					}
					exp := "ZeroDivisionError"
					if defined {
						exp = insp(wantValue(t, op.kind, res))
					}
					for _, k := range js {
						fs.fail(k, fmt.Sprintf("%s %s %s: expected %s, got val: %s err=%s %s / method: %s err=%s %s", t.lit(a), op.sym, t.lit(b), exp,
							insp(os[0].val), insp(os[0].err), os[0].panic, insp(os[1].val), insp(os[1].err), os[1].panic), t.name)
					}
				}
			}
		}
		fs.flush(r)
		r.Sample(fmt.Sprintf("all 65536 pairs a %s b for Int8 and UInt8, boundary pairs for the wider types, paths val+method", op.sym))
	})
}

// exactDiffers: the unbounded mathematical result differs from the wrapped one.
func exactDiffers(t *ityp, sym string, a, b, res uint64) bool {
	x, y := t.num(a), t.num(b)
	var z *big.Int
	switch sym {
	case "+":
		z = new(big.Int).Add(x, y)
	case "-":
		z = new(big.Int).Sub(x, y)
	case "*":
		z = new(big.Int).Mul(x, y)
	case "/":
		z = new(big.Int).Quo(x, y)
	case "%":
		z = new(big.Int).Rem(x, y)
	case "**":
		if y.Sign() < 0 || y.BitLen() > 12 {
			return true
		}
		z = new(big.Int).Exp(x, y, nil)
	default:
		return false
	}
	return z.Cmp(t.num(res)) != 0
}

var unaryOps = []struct {
	sym, method string
	val         func(v value.Value) value.Value
	ref         func(t *ityp, a uint64) uint64
}{
	{"-", "-@", value.NegateVal, func(t *ityp, a uint64) uint64 { return (-a) & t.mask() }},
	{"~", "~", value.BitwiseNotVal, func(t *ityp, a uint64) uint64 { return (^a) & t.mask() }},
	{"+", "+@", value.UnaryPlusVal, func(t *ityp, a uint64) uint64 { return a & t.mask() }},
	{"++", "++", value.IncrementVal, func(t *ityp, a uint64) uint64 { return (a + 1) & t.mask() }},
	{"--", "--", value.DecrementVal, func(t *ityp, a uint64) uint64 { return (a - 1) & t.mask() }},
}

func goIntUnary(c *engine.Ctx) {
	c.Case("go/int/unary", func(r *engine.R) {
		fs := newFailSet("int unary", "op", "type")
		for _, u := range unaryOps {
			for _, t := range ityps {
				for _, a := range t.boundary(true, c.Thorough) {
					res := u.ref(t, a)
					if (u.sym == "-" && a != 0) || (u.sym == "++" && res == 0) || (u.sym == "--" && a == 0) || u.sym == "~" {
						r.NT(1)
					}
					fs.see(u.method, t.name)
					var ks [2]string
					var os [2]outcome
					for i, fam := range families {
						os[i] = evalUnary(fam, u.method, u.val, t.mk(a))
						r.Eval(1)
						ks[i] = classifyInt(os[i], t, kTyped, res, true)
					}
					js := joint(ks[0], ks[1])
					if js == nil {
						r.Outcome("unary ok")
					}
					for _, k := range js {
						fs.fail(k, fmt.Sprintf("%s applied to %s: expected %s, got val: %s %s / method: %s %s", u.method, t.lit(a), t.show(res), insp(os[0].val), os[0].panic, insp(os[1].val), os[1].panic), u.method, t.name)
					}
				}
			}
		}
		fs.flush(r)
	})
}

func evalUnary(family, method string, val func(v value.Value) value.Value, v value.Value) outcome {
	if family == "val" {
		o := guard(func() (value.Value, value.Value) { return val(v), value.Undefined })
		if o.panic != "" || !o.val.IsUndefined() {
			return o
		}
	}
	return guard(func() (value.Value, value.Value) { return th.CallMethodByName(value.ToSymbol(method), v) })
}

const powCPULimit = 10 // seconds of CPU time granted to the child for a few hundred multiplications

// powProbe runs in a child process: base ** MAX(type) must terminate.
func powProbe(name string) {
	// the limit is CPU time, not wall-clock time: a loaded machine cannot make a terminating run look like a hang
	lim := syscall.Rlimit{Cur: powCPULimit, Max: powCPULimit + 2}
	if err := syscall.Setrlimit(syscall.RLIMIT_CPU, &lim); err != nil {
		fmt.Println("setrlimit:", err)
		os.Exit(3)
	}
	t := itypByName(name)
	v, e := value.ExponentiateVal(t.mk(3), t.mk(t.maxPattern()))
	fmt.Printf("%s %s\n", insp(v), insp(e))
}

func goPowMax(c *engine.Ctx) {
	c.Case("go/int/pow-max-exponent", func(r *engine.R) {
		exe, err := os.Executable()
		if err != nil {
			r.Note("cannot locate the executable: " + err.Error())
			return
		}
		type res struct {
			t    *ityp
			out  string
			to   bool // killed by the CPU-time limit
			wall bool // wall-clock backstop hit: inconclusive
			err  error
		}
		var ts []*ityp
		for _, t := range ityps {
			if t.bits <= 16 {
				ts = append(ts, t)
			}
		}
		ch := make(chan res, len(ts))
		for _, t := range ts {
			go func(t *ityp) {
				// wall-clock backstop only (inconclusive, never a violation); the deciding limit is the child's RLIMIT_CPU
				ctx, cancel := context.WithTimeout(context.Background(), 8*time.Minute)
				defer cancel()
				cmd := exec.CommandContext(ctx, exe, "-powprobe", t.name)
				cmd.Env = append(os.Environ(), "GOMAXPROCS=1")
				out, err := cmd.CombinedOutput()
				x := res{t: t, out: strings.TrimSpace(string(out)), err: err, wall: ctx.Err() == context.DeadlineExceeded}
				if cmd.ProcessState != nil && !x.wall {
					if ws, ok := cmd.ProcessState.Sys().(syscall.WaitStatus); ok && ws.Signaled() {
						x.to = ws.Signal() == syscall.SIGXCPU || ws.Signal() == syscall.SIGKILL
					}
				}
				ch <- x
			}(t)
		}
		got := map[string]res{}
		for range ts {
			x := <-ch
			got[x.t.name] = x
		}
		fs := newFailSet("int op=** exponent=MAX(type)", "type")
		for _, t := range ts {
			x := got[t.name]
			fs.see(t.name)
			r.Eval(1)
			r.NT(1)
			w, _, _ := refBin(t, "**", 3, t.maxPattern())
			want := t.show(w) + " <undefined>"
			src := fmt.Sprintf("3%s ** %s", t.suf, t.lit(t.maxPattern()))
			switch {
			case x.wall:
				r.Capped("pow-max probe for " + t.name + " did not finish within the wall-clock backstop (machine overloaded?)")
			case x.to:
				fs.fail("does not terminate", fmt.Sprintf("%s (value.ExponentiateVal in a child process) was killed after %d s of CPU time; expected %s (a few hundred multiplications)", src, powCPULimit, t.show(w)), t.name)
			case x.err != nil:
				fs.fail("child failed", fmt.Sprintf("%s: %v %s", src, x.err, x.out), t.name)
			case x.out != want:
				fs.fail("wrong value", fmt.Sprintf("%s: expected %s, got %s", src, want, x.out), t.name)
			default:
				r.Outcome("pow max ok")
			}
		}
		fs.flush(r)
	})
}

func goShift(c *engine.Ctx) {
	c.Case("go/shift", func(r *engine.R) {
		fs := newShiftFails()
		for _, so := range shiftOps {
			sym := so.sym
			for _, lt := range ityps {
				if !lt.signed && (sym == "<<<" || sym == ">>>") {
					continue
				}
				lvs := lt.boundary(true, c.Thorough)
				for _, rt := range rtypeNames {
					ok, diag := accepted(sym, lt, rt)
					if !ok {
						r.Count("combinations_rejected_by_checker", 1)
						r.Note(fmt.Sprintf("%s %s %s rejected by the checker: %s", lt.name, sym, rt, diag))
						continue
					}
					r.Count("combinations_accepted_by_checker", 1)
					for _, am := range amounts(rt, lt.bits == 8, false) {
						rtn := rt
						if am.v.IsReference() {
							rtn = "Int(big)"
						}
						cl := am.class(lt.bits)
						if isMin(am) {
							cl = "MIN(type)"
						}
						for _, a := range lvs {
							res := refShift(lt, sym, a, am.n)
							if lt.bits == 8 && am.n.IsInt64() && am.n.Int64() >= -300 && am.n.Int64() <= 300 {
								res = uint64(nativeShift8(lt.signed, sym, uint8(a), int(am.n.Int64())))
							}
							r.NT(1)
							fs.see(so.name, lt.name)
							var ks [2]string
							var os [2]outcome
							for i, fam := range families {
								os[i] = evalBin(fam, sym, so.val, lt.mk(a), am.v)
								r.Eval(1)
								ks[i] = classifyInt(os[i], lt, kTyped, res, true)
							}
							js := joint(ks[0], ks[1])
							if js == nil {
								r.Outcome("shift " + cl)
							}
							for _, k := range js {
								fs.fail(k, fmt.Sprintf("%s %s %s: expected %s, got val: %s err=%s %s / method: %s err=%s %s", lt.lit(a), sym, am.lit, lt.show(res),
									insp(os[0].val), insp(os[0].err), os[0].panic, insp(os[1].val), insp(os[1].err), os[1].panic), so.name, lt.name, rtn, cl)
							}
						}
					}
				}
			}
		}
		fs.flush(r)
		r.Sample("a << n, a >> n, a <<< n, a >>> n for all 256 Int8/UInt8 values of a (boundary values of wider types) and n of every AnyInt member")
	})
}

// shiftFails aggregates shift failures so that one defect gets one signature: failures are first grouped by
// (kind, operator, right-operand type) — the dispatch structure of the shift helpers — and groups that fail for the
// same set of left types are then merged ("*" = every left type the operator has).
type shiftFails struct {
	lefts  map[string]map[string]bool // op -> left types evaluated
	groups map[string]*shiftGroup
	order  []string
}

type shiftGroup struct {
	kind, op, right string
	lefts, amounts  map[string]bool
	samples         []string
	count           int
}

func newShiftFails() *shiftFails {
	return &shiftFails{lefts: map[string]map[string]bool{}, groups: map[string]*shiftGroup{}}
}

func (f *shiftFails) see(op, left string) {
	if f.lefts[op] == nil {
		f.lefts[op] = map[string]bool{}
	}
	f.lefts[op][left] = true
}

func (f *shiftFails) fail(kind, detail, op, left, right, amount string) {
	key := kind + "|" + op + "|" + right
	g := f.groups[key]
	if g == nil {
		g = &shiftGroup{kind: kind, op: op, right: right, lefts: map[string]bool{}, amounts: map[string]bool{}}
		f.groups[key] = g
		f.order = append(f.order, key)
	}
	g.lefts[left] = true
	g.amounts[amount] = true
	g.count++
	if len(g.samples) < 3 {
		g.samples = append(g.samples, detail)
	}
}

func (f *shiftFails) flush(r *engine.R) {
	type merged struct {
		kind, left           string
		ops, rights, amounts map[string]bool
		samples              []string
		count                int
	}
	ms := map[string]*merged{}
	var order []string
	sort.Strings(f.order)
	for _, key := range f.order {
		g := f.groups[key]
		left := strings.Join(keys(g.lefts), ",")
		if len(g.lefts) == len(f.lefts[g.op]) {
			left = "*"
		}
		mk := g.kind + "|" + left
		m := ms[mk]
		if m == nil {
			m = &merged{kind: g.kind, left: left, ops: map[string]bool{}, rights: map[string]bool{}, amounts: map[string]bool{}}
			ms[mk] = m
			order = append(order, mk)
		}
		m.ops[g.op] = true
		m.rights[g.right] = true
		for a := range g.amounts {
			m.amounts[a] = true
		}
		m.count += g.count
		if len(m.samples) < 6 {
			m.samples = append(m.samples, g.samples...)
		}
	}
	sort.Strings(order)
	for _, mk := range order {
		m := ms[mk]
		sig := fmt.Sprintf("shift op=%s left=%s right=%s amount=%s: %s", strings.Join(keys(m.ops), ","), m.left, strings.Join(keys(m.rights), ","), strings.Join(keys(m.amounts), ","), m.kind)
		r.Violation(sig, fmt.Sprintf("%d failing evaluation(s), e.g.\n%s", m.count, strings.Join(m.samples, "\n")), m.samples[0])
		r.Count("failing_evaluations", m.count)
	}
}

// isMin: the amount is the minimum of its (signed) type.
func isMin(am amount) bool {
	if am.rtype == "Int" {
		return am.n.IsInt64() && am.n.Int64() == math.MinInt64
	}
	t := itypByName(am.rtype)
	return t.signed && am.n.Cmp(t.num(t.maxPattern()+1)) == 0
}

// ---------------------------------------------------------------------------------------------

func classifyFloat(o outcome, t *ftyp, op ibop, a, b float64) (kind string, want string) {
	res, isBool, bres := refFloat(t, op.sym, a, b)
	switch {
	case isBool:
		want = strconv.FormatBool(bres)
	case op.kind == kCmp:
		if res != res {
			want = "nil"
		} else {
			want = strconv.Itoa(int(res))
		}
	default:
		want = t.show(res)
	}
	switch {
	case o.panic != "":
		return "go-panic " + engine.PanicSig(o.panic, ""), want
	case !o.err.IsUndefined():
		return "raises " + errClass(o.err), want
	case o.val.IsUndefined():
		return "no builtin result", want
	}
	if isBool || op.kind == kCmp {
		if o.val.IsReference() || o.val.Inspect() != want {
			return "wrong value", want
		}
		return "", want
	}
	g, ok := t.get(o.val)
	if !ok {
		return "result of class " + o.val.Class().Name, want
	}
	if t.bits == 32 {
		res = float64(float32(res))
	}
	if (g != g && res != res) || math.Float64bits(g) == math.Float64bits(res) {
		return "", want
	}
	if g == 0 && res == 0 {
		return "wrong sign of zero", want
	}
	return "wrong value", want
}

func goFloatBinary(c *engine.Ctx, op ibop) {
	c.Case("go/float/"+op.name, func(r *engine.R) {
		fs := newFailSet("float op="+op.name+" "+op.sym, "type")
		for _, t := range ftyps {
			vs := t.values(false, c.Thorough)
			for _, a := range vs {
				for _, b := range vs {
					if fclass(a) != "finite" || fclass(b) != "finite" {
						r.NT(1)
					} else if res, isBool, _ := refFloat(t, op.sym, a, b); !isBool && fclass(res) != "finite" {
						r.NT(1)
					}
					fs.see(t.name)
					var ks [2]string
					var os [2]outcome
					var want string
					for i, fam := range families {
						os[i] = evalBin(fam, op.sym, op.val, t.mk(a), t.mk(b))
						r.Eval(1)
						ks[i], want = classifyFloat(os[i], t, op, a, b)
					}
					js := joint(ks[0], ks[1])
					if js == nil {
						r.Outcome("float " + fclassOfWant(want))
					}
					for _, k := range js {
						fs.fail(k, fmt.Sprintf("%s %s %s: expected %s, got val: %s err=%s %s / method: %s err=%s %s", t.show(a), op.sym, t.show(b), want,
							insp(os[0].val), insp(os[0].err), os[0].panic, insp(os[1].val), insp(os[1].err), os[1].panic), t.name)
					}
				}
			}
		}
		fs.flush(r)
		r.Sample(fmt.Sprintf("all pairs of the boundary floats for %s, e.g. 9007199254740992.0 %s 1.0, -0.0 %s 0.0, NaN %s 1.0", op.sym, op.sym, op.sym, op.sym))
	})
}

func fclassOfWant(w string) string {
	switch {
	case strings.Contains(w, "NAN"):
		return "nan"
	case strings.Contains(w, "INF"):
		return "inf"
	case w == "true" || w == "false" || w == "nil" || w == "0" || w == "1" || w == "-1":
		return w
	case strings.HasPrefix(w, "-0.0") && len(w) == 4, strings.HasPrefix(w, "-0f"):
		return "-0"
	}
	return "num"
}

func goFloatUnary(c *engine.Ctx) {
	c.Case("go/float/neg", func(r *engine.R) {
		fs := newFailSet("float unary op=-@", "type")
		for _, t := range ftyps {
			for _, a := range t.values(false, c.Thorough) {
				want := -a
				fs.see(t.name)
				r.NT(1)
				var ks [2]string
				var os [2]outcome
				for i, fam := range families {
					o := evalUnary(fam, "-@", value.NegateVal, t.mk(a))
					os[i] = o
					r.Eval(1)
					g, ok := t.get(o.val)
					switch {
					case o.panic != "" || !o.err.IsUndefined() || !ok:
						ks[i] = "no result"
					case !(g != g && want != want) && math.Float64bits(g) != math.Float64bits(want):
						ks[i] = "wrong value"
					}
				}
				js := joint(ks[0], ks[1])
				if js == nil {
					r.Outcome("neg ok")
				}
				for _, k := range js {
					fs.fail(k, fmt.Sprintf("-(%s): expected %s, got val: %s %s / method: %s %s", t.show(a), t.show(want), insp(os[0].val), os[0].panic, insp(os[1].val), os[1].panic), t.name)
				}
			}
		}
		fs.flush(r)
	})
}

// ---------------------------------------------------------------------------------------------
// VM pass

var vmForms = []string{"literal", "typed", "method"}

func familyOfForm(form string) string {
	if form == "method" {
		return "method"
	}
	return "val"
}

func resTypeName(kind int, tname string) string {
	switch kind {
	case kBool:
		return "bool"
	case kCmp:
		return "Int"
	}
	return tname
}

type vmMeta struct {
	form, want, expr string
	dims             []string
	wantErr          string
}

func runVMItems(r *engine.R, fs *failSet, prelude string, items []elkrun.Item, metas []vmMeta) {
	// one program per 300 items: keeps the constant pool and the compile time of a single program small
	var res []elkrun.ItemResult
	for lo := 0; lo < len(items); lo += 300 {
		hi := min(lo+300, len(items))
		res = append(res, elkrun.Batch(prelude, items[lo:hi], nil)...)
	}
	for i, ir := range res {
		m := metas[i]
		r.Eval(1)
		got := strings.TrimSpace(ir.Out)
		var k string
		switch {
		case ir.Panic != "":
			k = "go-panic " + ir.Panic
		case ir.Rejected:
			k = "rejected by the checker"
		case m.wantErr != "":
			if ir.ErrClass != m.wantErr {
				k = "expected " + m.wantErr + ", got " + ir.ErrClass
				if ir.ErrClass == "" {
					k = "expected " + m.wantErr + ", no error"
				}
			}
		case ir.Err != "":
			k = "raises " + ir.ErrClass
		case got != m.want:
			k = "wrong value"
			if m.want == "-0.0" && got == "0.0" {
				k = "Float -0.0 constant materialised as 0.0"
			}
		}
		if k == "" {
			r.Outcome("vm " + m.form + " ok")
			continue
		}
		fs.fail(k, fmt.Sprintf("%s\nexpected %s%s, printed %q err=%s %s", items[i].Code, m.want, m.wantErr, got, ir.Err, firstLine(ir.Diags)), m.dims...)
	}
}

func firstLine(s string) string {
	if i := strings.IndexByte(s, '\n'); i >= 0 {
		return s[:i]
	}
	return s
}

func vmIntBinary(c *engine.Ctx, t *ityp, op ibop) {
	c.Case(fmt.Sprintf("vm/int/%s/%s", t.name, op.name), func(r *engine.R) {
		fs := newFailSet(fmt.Sprintf("vm int op=%s %s type=%s", op.name, op.sym, t.name), "form")
		rt := resTypeName(op.kind, t.name)
		sfx := strings.ToLower("_" + t.name + "_" + op.name)
		prelude := fmt.Sprintf("def t%s(a: %s, b: %s): %s then a %s b\ndef m%s(a: %s, b: %s): %s then a.%s(b)\n", sfx, t.name, t.name, rt, op.sym, sfx, t.name, t.name, rt, op.sym)
		var items []elkrun.Item
		var metas []vmMeta
		vs := t.vmValues(c.Thorough)
		for _, a := range vs {
			for _, b := range vs {
				res, defined, skip := refBin(t, op.sym, a, b)
				if skip || (op.sym == "**" && !expOK(t, b)) {
					continue
				}
				if op.kind == kTyped && defined && exactDiffers(t, op.sym, a, b, res) {
					r.NT(1)
				}
				for _, form := range vmForms {
					if !defined && form == "literal" {
						continue // a constant zero divisor may legitimately be diagnosed at compile time
					}
					// only report what the VM path adds: skip inputs whose Go-level family already fails
					o := evalBin(familyOfForm(form), op.sym, op.val, t.mk(a), t.mk(b))
					if classifyInt(o, t, op.kind, res, defined) != "" {
						r.Count("vm_items_skipped_failing_at_go_level", 1)
						continue
					}
					var code, expr string
					switch form {
					case "literal":
						expr = fmt.Sprintf("%s %s %s", t.lit(a), op.sym, t.lit(b))
						code = fmt.Sprintf("x := %s\nprintln(x.inspect)", expr)
					case "typed":
						expr = fmt.Sprintf("t%s(%s, %s)", sfx, t.lit(a), t.lit(b))
						code = fmt.Sprintf("x := %s\nprintln(x.inspect)", expr)
					case "method":
						expr = fmt.Sprintf("m%s(%s, %s)", sfx, t.lit(a), t.lit(b))
						code = fmt.Sprintf("x := %s\nprintln(x.inspect)", expr)
					}
					m := vmMeta{form: form, expr: expr, dims: []string{form}}
					if defined {
						m.want = wantValue(t, op.kind, res).Inspect()
					} else {
						m.wantErr = "Std::ZeroDivisionError"
					}
					fs.see(form)
					items = append(items, elkrun.Item{Code: code})
					metas = append(metas, m)
				}
			}
		}
		runVMItems(r, fs, prelude, items, metas)
		fs.flush(r)
		if len(items) > 0 {
			r.Sample(prelude + items[len(items)-1].Code)
		}
	})
}

func vmIntUnary(c *engine.Ctx, t *ityp) {
	c.Case(fmt.Sprintf("vm/int/%s/unary", t.name), func(r *engine.R) {
		fs := newFailSet(fmt.Sprintf("vm int unary type=%s", t.name), "op", "form")
		var prelude strings.Builder
		sfx := strings.ToLower("_" + t.name)
		for i, u := range unaryOps {
			if u.sym == "++" || u.sym == "--" {
				fmt.Fprintf(&prelude, "def t_u%d%s(a: %s): %s\n  b := a\n  b%s\n  b\nend\n", i, sfx, t.name, t.name, u.sym)
			} else {
				fmt.Fprintf(&prelude, "def t_u%d%s(a: %s): %s then %sa\n", i, sfx, t.name, t.name, u.sym)
			}
			fmt.Fprintf(&prelude, "def m_u%d%s(a: %s): %s then a.%s()\n", i, sfx, t.name, t.name, u.method)
		}
		var items []elkrun.Item
		var metas []vmMeta
		for _, a := range t.vmValues(c.Thorough) {
			for i, u := range unaryOps {
				res := u.ref(t, a)
				for _, form := range []string{"typed", "method"} {
					o := evalUnary(familyOfForm(form), u.method, u.val, t.mk(a))
					if classifyInt(o, t, kTyped, res, true) != "" {
						r.Count("vm_items_skipped_failing_at_go_level", 1)
						continue
					}
					fn := "t_u"
					if form == "method" {
						fn = "m_u"
					}
					code := fmt.Sprintf("x := %s%d%s(%s)\nprintln(x.inspect)", fn, i, sfx, t.lit(a))
					fs.see(u.method, form)
					r.NT(1)
					items = append(items, elkrun.Item{Code: code})
					metas = append(metas, vmMeta{form: form, want: t.mk(res).Inspect(), dims: []string{u.method, form}})
				}
			}
		}
		runVMItems(r, fs, prelude.String(), items, metas)
		fs.flush(r)
	})
}

func vmShift(c *engine.Ctx, sym, name string, val func(l, r value.Value) (value.Value, value.Value), lt *ityp, rt string) {
	c.Case(fmt.Sprintf("vm/shift/%s/%s/%s", name, lt.name, rt), func(r *engine.R) {
		ok, _ := accepted(sym, lt, rt)
		if !ok {
			r.Count("combinations_rejected_by_checker", 1)
			return
		}
		fs := newFailSet(fmt.Sprintf("vm shift op=%s %s left=%s right=%s", name, sym, lt.name, rt), "form", "amount")
		sfx := strings.ToLower("_" + name + "_" + lt.name + "_" + rt)
		prelude := fmt.Sprintf("def t%s(a: %s, b: %s): %s then a %s b\ndef m%s(a: %s, b: %s): %s then a.%s(b)\n", sfx, lt.name, rt, lt.name, sym, sfx, lt.name, rt, lt.name, sym)
		m := lt.mask()
		lvs := []uint64{1, m, 0xA5A5A5A5A5A5A5A5 & m}
		if c.Thorough {
			lvs = append(lvs, uint64(1)<<(lt.bits-1), m>>1, 0x5A5A5A5A5A5A5A5A&m)
		}
		var items []elkrun.Item
		var metas []vmMeta
		for _, am := range amounts(rt, false, true) {
			cl := am.class(lt.bits)
			if isMin(am) {
				cl = "MIN(type)"
			}
			for _, a := range lvs {
				res := refShift(lt, sym, a, am.n)
				for _, form := range vmForms {
					o := evalBin(familyOfForm(form), sym, val, lt.mk(a), am.v)
					if classifyInt(o, lt, kTyped, res, true) != "" {
						r.Count("vm_items_skipped_failing_at_go_level", 1)
						continue
					}
					var expr string
					switch form {
					case "literal":
						expr = fmt.Sprintf("%s %s %s", lt.lit(a), sym, am.lit)
					case "typed":
						expr = fmt.Sprintf("t%s(%s, %s)", sfx, lt.lit(a), am.lit)
					case "method":
						expr = fmt.Sprintf("m%s(%s, %s)", sfx, lt.lit(a), am.lit)
					}
					fs.see(form, cl)
					r.NT(1)
					items = append(items, elkrun.Item{Code: fmt.Sprintf("x := %s\nprintln(x.inspect)", expr)})
					metas = append(metas, vmMeta{form: form, want: lt.mk(res).Inspect(), dims: []string{form, cl}})
				}
			}
		}
		runVMItems(r, fs, prelude, items, metas)
		fs.flush(r)
		if len(items) > 0 {
			r.Sample(prelude + items[len(items)-1].Code)
		}
	})
}

// vmFloatLiterals: every boundary float written as an Elk expression evaluates to itself (the operands of the
// VM float pass); `-0.0` is the negation of 0.0 and must be the negative zero.
func vmFloatLiterals(c *engine.Ctx) {
	c.Case("vm/float/literals", func(r *engine.R) {
		fs := newFailSet("vm float literal", "type")
		var items []elkrun.Item
		var metas []vmMeta
		for _, t := range ftyps {
			for _, a := range t.values(false, c.Thorough) {
				fs.see(t.name)
				items = append(items, elkrun.Item{Code: fmt.Sprintf("x := %s\nprintln(x.inspect)", t.lit(a))})
				metas = append(metas, vmMeta{form: "literal", want: t.show(a), dims: []string{t.name}})
			}
			// the plain spelling of the negative zero
			fs.see(t.name)
			items = append(items, elkrun.Item{Code: fmt.Sprintf("x := -0.0%s\nprintln(x.inspect)", t.suf)})
			metas = append(metas, vmMeta{form: "literal", want: t.show(math.Copysign(0, -1)), dims: []string{t.name}})
			items = append(items, elkrun.Item{Code: fmt.Sprintf("x := 0.0%s * -1.0%s\nprintln(x.inspect)", t.suf, t.suf)})
			metas = append(metas, vmMeta{form: "literal", want: t.show(math.Copysign(0, -1)), dims: []string{t.name}})
		}
		r.NT(len(items))
		runVMItems(r, fs, floatPrelude, items, metas)
		// only the sign of zero is an arithmetic matter (C07); other literal mismatches belong to C19
		for k, g := range fs.groups {
			if k != "Float -0.0 constant materialised as 0.0" {
				r.Note(fmt.Sprintf("float literal does not evaluate to itself (%s): %s", k, g.samples[0]))
				r.Count("float_literals_not_roundtripping", g.count)
				delete(fs.groups, k)
			}
		}
		var order []string
		for _, k := range fs.order {
			if _, ok := fs.groups[k]; ok {
				order = append(order, k)
			}
		}
		fs.order = order
		fs.flush(r)
	})
}

func vmFloatBinary(c *engine.Ctx, t *ftyp, op ibop) {
	c.Case(fmt.Sprintf("vm/float/%s/%s", t.name, op.name), func(r *engine.R) {
		fs := newFailSet(fmt.Sprintf("vm float op=%s %s type=%s", op.name, op.sym, t.name), "form")
		rt := resTypeName(op.kind, t.name)
		sfx := strings.ToLower("_" + t.name + "_" + op.name)
		printer := "println(x.inspect)"
		if op.kind == kCmp {
			// the headers declare `<=>: Int` but NaN operands give nil: print dynamically (the static `Int#inspect`
			// binding on nil is a typing defect outside this property)
			printer = "println(show(x))"
		}
		// `-0.0` as a Float constant is compiled to +0.0 (reported once by vm/float/literals): when that defect is
		// present, constant-folded results that should be -0.0 are attributed to it
		negZeroLost := false
		if t.suf == "" {
			pr := elkrun.Run("x := -0.0\nprintln(x.inspect)", nil)
			negZeroLost = strings.TrimSpace(pr.Stdout) == "0.0"
		}
		prelude := elkrun.ShowPrelude + floatPrelude + fmt.Sprintf("def t%s(a: %s, b: %s): %s then a %s b\ndef m%s(a: %s, b: %s): %s then a.%s(b)\n", sfx, t.name, t.name, rt, op.sym, sfx, t.name, t.name, rt, op.sym)
		vs := t.values(true, c.Thorough)
		// operands whose Elk spelling does not evaluate to the intended value are left out (counted)
		var lits []elkrun.Item
		for _, a := range vs {
			lits = append(lits, elkrun.Item{Code: fmt.Sprintf("x := %s\nprintln(x.inspect)", t.lit(a))})
		}
		good := map[int]bool{}
		for i, ir := range elkrun.Batch(floatPrelude, lits, nil) {
			if ir.Panic == "" && !ir.Rejected && ir.Err == "" && strings.TrimSpace(ir.Out) == t.show(vs[i]) {
				good[i] = true
			} else {
				r.Count("operands_left_out_literal_not_roundtripping", 1)
			}
		}
		var items []elkrun.Item
		var metas []vmMeta
		for i, a := range vs {
			for j, b := range vs {
				if !good[i] || !good[j] {
					continue
				}
				if fclass(a) != "finite" || fclass(b) != "finite" {
					r.NT(1)
				}
				for _, form := range vmForms {
					o := evalBin(familyOfForm(form), op.sym, op.val, t.mk(a), t.mk(b))
					k, want := classifyFloat(o, t, op, a, b)
					if k != "" {
						r.Count("vm_items_skipped_failing_at_go_level", 1)
						continue
					}
					var expr string
					switch form {
					case "literal":
						expr = fmt.Sprintf("%s %s %s", t.lit(a), op.sym, t.lit(b))
					case "typed":
						expr = fmt.Sprintf("t%s(%s, %s)", sfx, t.lit(a), t.lit(b))
					case "method":
						expr = fmt.Sprintf("m%s(%s, %s)", sfx, t.lit(a), t.lit(b))
					}
					if negZeroLost && form == "literal" && want == "-0.0" {
						r.Count("literal_items_attributed_to_the_negative_zero_constant_defect", 1)
						continue
					}
					fs.see(form)
					items = append(items, elkrun.Item{Code: fmt.Sprintf("x := %s\n%s", expr, printer)})
					metas = append(metas, vmMeta{form: form, want: want, dims: []string{form}})
				}
			}
		}
		runVMItems(r, fs, prelude, items, metas)
		fs.flush(r)
		if len(items) > 0 {
			r.Sample(prelude + items[len(items)-1].Code)
		}
	})
}
