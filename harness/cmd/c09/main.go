// C09 — the native Go backend behaves like the bytecode VM.
// Bounded-exhaustive differential check: every program of a finite, explicitly enumerated space is run on the
// bytecode VM and, when the Go backend accepts it, translated by checker.CheckSourceNative, compiled and executed.
// Oracle: the generated Go compiles; stdout, success/failure status and the uncaught-error report are equal.
//
// Cost model: loading and linking the elk runtime dominates a native build (seconds), so a worker translates all
// programs of its share first and compiles them into ONE binary: program k becomes file pk.go of package main of a
// scratch module (the generated file with its package-level identifiers consistently suffixed _pk, nothing else
// changed), and a generated dispatcher runs exactly one of them per process (`prog k` calls main_pk()). The scratch
// module has the layout of elk.compileResult (module main, -tags native, elk replaced by /repo).
package main

import (
	"bufio"
	"bytes"
	"context"
	"encoding/json"
	"fmt"
	"go/ast"
	"go/format"
	"go/parser"
	"go/token"
	"io"
	"os"
	"os/exec"
	"path/filepath"
	"regexp"
	"runtime/debug"
	"sort"
	"strconv"
	"strings"
	"sync"
	"time"

	"github.com/elk-language/elk/bitfield"
	"github.com/elk-language/elk/types/checker"
	"github.com/elk-language/elk/vm"

	"verifharness/elkrun"
	"verifharness/engine"
)

const srcName = "p.elk"

// ---------------------------------------------------------------- VM side

type frame struct {
	File string
	Func string
	Line int
	Tail int
}

type report struct {
	Head   string  // "Error! Uncaught error <Class>: <message>" / "Error! Uncaught thrown value: <inspect>"
	Frames []frame // most recent call last
	Raw    string
}

type vmResult struct {
	Rejected bool
	Diags    string
	Panic    string
	PanicSig string
	Stack    string
	Stdout   string
	Failed   bool // uncaught error
	Rep      report
}

func runVMInProc(src string) (res vmResult) {
	fn, cr := elkrun.Compile(src, &elkrun.Options{Name: srcName})
	if fn == nil {
		res.Rejected, res.Diags, res.Panic, res.PanicSig, res.Stack = cr.Rejected, cr.Diags, cr.Panic, cr.PanicSig, cr.Stack
		return res
	}
	var out, errb strings.Builder
	defer func() {
		if p := recover(); p != nil {
			res.Stdout = out.String()
			res.Stack = string(debug.Stack())
			res.Panic = fmt.Sprint(p)
			res.PanicSig = engine.PanicSig(res.Panic, res.Stack)
		}
	}()
	v := vm.New(vm.WithStdout(&out), vm.WithStderr(&errb))
	_, err := v.InterpretTopLevel(fn)
	res.Stdout = out.String()
	if !err.IsUndefined() {
		// exactly what cmd/elk does for `elk run`
		res.Failed = true
		vm.PrintError(&errb, v.ErrStackTrace(), err)
		res.Rep = parseReport(errb.String())
	} else if errb.Len() > 0 {
		res.Rep.Raw = errb.String()
	}
	return res
}

var frameRe = regexp.MustCompile("^ (\\d+): (.*):(\\d+), in `(.*)`$")
var tailRe = regexp.MustCompile(`^ \.\.\. (\d+) optimised tail call\(s\)$`)
var ansiRe = regexp.MustCompile("\x1b\\[[0-9;]*m")

func parseReport(s string) report {
	s = ansiRe.ReplaceAllString(s, "")
	r := report{Raw: s}
	tail := 0
	for _, line := range strings.Split(s, "\n") {
		if m := tailRe.FindStringSubmatch(line); m != nil {
			fmt.Sscan(m[1], &tail)
			continue
		}
		if m := frameRe.FindStringSubmatch(line); m != nil {
			f := frame{File: m[2], Func: m[4], Tail: tail}
			fmt.Sscan(m[3], &f.Line)
			r.Frames = append(r.Frames, f)
			tail = 0
			continue
		}
		if strings.HasPrefix(line, "Error! ") && r.Head == "" {
			r.Head = line
		}
	}
	return r
}

// ---------------------------------------------------------------- backend (translation)

func genNativeInProc(src string) (goSrc []byte, status, detail string) {
	defer func() {
		if p := recover(); p != nil {
			st := string(debug.Stack())
			status = "backend-panic"
			detail = engine.PanicSig(fmt.Sprint(p), st) + "\n" + st
		}
	}()
	var buf bytes.Buffer
	gc, diags := checker.CheckSourceNative(srcName, src, nil, bitfield.BitField16{}, &buf, nil)
	if (diags != nil && diags.IsFailure()) || gc == nil {
		d := ""
		if diags != nil {
			d = diags.Error()
		}
		return nil, "rejected", d
	}
	gc.Flush()
	out, err := format.Source(buf.Bytes())
	if err != nil {
		return buf.Bytes(), "gofmt-error", err.Error()
	}
	return out, "ok", ""
}

// front: what both sides did with one program before anything is built.
type front struct {
	VM     vmResult
	Status string // ok | rejected | backend-panic | gofmt-error | not-run
	Detail string
	GoSrc  []byte
}

// The VM run and the translation happen in child processes (this binary with C09_CHILD=…): the backend and the
// bytecode compiler work on other goroutines, where a Go panic cannot be recovered, and some VM defects end in a Go
// fatal error. mode "batch": many programs per child, one JSON line per program; the parent falls back to one child
// per side ("vm", "gen") for the program at which a batch child died.
func childMain(mode string) {
	os.Setenv("VERIF_WORKER", "1") // keeps fd 1 free of checker chatter
	elkrun.Init()
	out := bufio.NewWriter(os.NewFile(uintptr(1), "out"))
	b, _ := io.ReadAll(os.Stdin)
	emit := func(v any) {
		enc, _ := json.Marshal(v)
		out.Write(enc)
		out.WriteByte('\n')
		out.Flush()
	}
	switch mode {
	case "vm":
		emit(front{VM: runVMInProc(string(b)), Status: "not-run"})
	case "gen":
		var f front
		f.GoSrc, f.Status, f.Detail = genNativeInProc(string(b))
		emit(f)
	case "batch":
		var srcs []string
		json.Unmarshal(b, &srcs)
		for _, src := range srcs {
			var f front
			elkrun.ResetRuntime()
			f.VM = runVMInProc(src)
			elkrun.ResetRuntime()
			if f.VM.Rejected {
				f.Status = "not-run"
			} else {
				f.GoSrc, f.Status, f.Detail = genNativeInProc(src)
			}
			emit(f)
		}
	}
	os.Exit(0)
}

func runChild(mode string, stdin []byte) (stdout, stderr []byte, err error) {
	exe, e := os.Executable()
	if e != nil {
		panic(e)
	}
	ctx, cancel := context.WithTimeout(context.Background(), 30*time.Minute)
	defer cancel()
	cmd := exec.CommandContext(ctx, exe)
	cmd.Env = append(os.Environ(), "C09_CHILD="+mode)
	cmd.Stdin = bytes.NewReader(stdin)
	var so, se bytes.Buffer
	cmd.Stdout, cmd.Stderr = &so, &se
	err = cmd.Run()
	return so.Bytes(), se.Bytes(), err
}

func hasCrash(stderr string) bool {
	for _, k := range []string{"panic:", "fatal error:", "fatal:", "SIGSEGV", "unexpected fault", "unexpected signal"} {
		if strings.Contains(stderr, k) {
			return true
		}
	}
	return false
}

func oneSide(mode, src string) front {
	so, se, err := runChild(mode, []byte(src))
	var f front
	if err == nil && json.Unmarshal(bytes.TrimSpace(so), &f) == nil {
		return f
	}
	stderr := string(se)
	if !hasCrash(stderr) {
		panic(fmt.Sprintf("infrastructure: %s child failed: %v\n%s\n%s", mode, err, firstLines(string(so), 5), firstLines(stderr, 20)))
	}
	if mode == "vm" {
		return front{VM: vmResult{Panic: "VM process died", PanicSig: goPanicSig(stderr), Stack: firstLines(crashHead(stderr), 30)}}
	}
	return front{Status: "backend-panic", Detail: goPanicSig(stderr) + "\n" + firstLines(crashHead(stderr), 14)}
}

// fronts computes the front of every source.
func fronts(srcs []string) []front {
	res := make([]front, 0, len(srcs))
	for len(res) < len(srcs) {
		in, _ := json.Marshal(srcs[len(res):])
		so, se, _ := runChild("batch", in)
		n := 0
		for _, line := range bytes.Split(so, []byte("\n")) {
			var f front
			if len(bytes.TrimSpace(line)) == 0 || json.Unmarshal(line, &f) != nil || f.Status == "" {
				continue
			}
			res = append(res, f)
			n++
		}
		if len(res) >= len(srcs) {
			break
		}
		if !hasCrash(string(se)) && n == 0 {
			panic(fmt.Sprintf("infrastructure: batch child made no progress\n%s", firstLines(string(se), 20)))
		}
		// the child died on srcs[len(res)]: find out which side
		src := srcs[len(res)]
		f := oneSide("vm", src)
		if f.VM.Rejected {
			f.Status = "not-run"
		} else {
			g := oneSide("gen", src)
			f.GoSrc, f.Status, f.Detail = g.GoSrc, g.Status, g.Detail
		}
		res = append(res, f)
	}
	return res
}

// ---------------------------------------------------------------- combined native build

const goModText = `module main

go 1.25.0

require github.com/elk-language/elk v0.0.0

replace github.com/elk-language/elk => /repo
`

func goEnv() []string {
	env := []string{}
	for _, kv := range os.Environ() {
		k := strings.SplitN(kv, "=", 2)[0]
		switch k {
		case "GOFLAGS", "GOPROXY", "GOTOOLCHAIN", "GOSUMDB", "CGO_ENABLED", "ELKPATH", "GOWORK":
			continue
		}
		env = append(env, kv)
	}
	return append(env, "GOFLAGS=-mod=mod", "GOPROXY=off", "GOTOOLCHAIN=auto", "CGO_ENABLED=0", "ELKPATH=/repo", "GOWORK=off", "NO_COLOR=1")
}

var buildErrLineRe = regexp.MustCompile(`^(?:\./)?p(\d+)\.go:\d+:\d+: (.*)$`)

// renameTopLevel gives every package-level identifier declared in a generated file the suffix _p<k> (consistently at
// all its uses), so that the generated files of many programs can live in one Go package. Nothing else changes.
func renameTopLevel(src []byte, k int) ([]byte, error) {
	fset := token.NewFileSet()
	f, err := parser.ParseFile(fset, "prog.go", src, parser.ParseComments)
	if err != nil {
		return nil, err
	}
	if f.Name.Name != "main" || f.Scope.Lookup("main") == nil {
		return nil, fmt.Errorf("generated file has no `package main` / `func main()`")
	}
	top := map[*ast.Object]bool{}
	for _, obj := range f.Scope.Objects {
		top[obj] = true
	}
	sfx := fmt.Sprintf("_p%d", k)
	seen := map[*ast.Ident]bool{}
	ast.Inspect(f, func(n ast.Node) bool {
		if id, ok := n.(*ast.Ident); ok && id.Obj != nil && top[id.Obj] && id.Name != "_" && !seen[id] {
			seen[id] = true
			id.Name += sfx
		}
		return true
	})
	var out bytes.Buffer
	if err := format.Node(&out, fset, f); err != nil {
		return nil, err
	}
	return out.Bytes(), nil
}

// buildCombined writes file p<K>.go for every source in goSrcs (key K) into dir and builds one binary. Programs
// whose file does not compile are returned in errs (the compiler's messages) and left out of the binary.
func buildCombined(dir string, goSrcs map[int][]byte) (bin string, errs map[int]string) {
	errs = map[int]string{}
	if err := os.MkdirAll(dir, 0o755); err != nil {
		panic(err)
	}
	sum, _ := os.ReadFile("/repo/go.sum")
	os.WriteFile(filepath.Join(dir, "go.mod"), []byte(goModText), 0o644)
	os.WriteFile(filepath.Join(dir, "go.sum"), sum, 0o644)
	live := map[int]bool{}
	for k, src := range goSrcs {
		ren, err := renameTopLevel(src, k)
		if err != nil {
			errs[k] = fmt.Sprintf("p%d.go:1:1: %v\n", k, err)
			continue
		}
		os.WriteFile(filepath.Join(dir, fmt.Sprintf("p%d.go", k)), ren, 0o644)
		live[k] = true
	}
	for round := 0; round < 60; round++ {
		var keys []int
		for k := range live {
			keys = append(keys, k)
		}
		sort.Ints(keys)
		var d strings.Builder
		d.WriteString("package main\n\nimport \"os\"\n\nfunc main() {\n\tswitch os.Args[1] {\n")
		for _, k := range keys {
			fmt.Fprintf(&d, "\tcase \"%d\":\n\t\tmain_p%d()\n", k, k)
		}
		d.WriteString("\tdefault:\n\t\tos.Exit(97)\n\t}\n}\n")
		os.WriteFile(filepath.Join(dir, "main.go"), []byte(d.String()), 0o644)
		args := []string{"build", "-tags", "native", "-gcflags=main=-e"}
		if ov := os.Getenv("VERIF_OVERLAY"); ov != "" {
			args = append(args, "-overlay", ov) // mutation demonstrations must reach the runtime linked into the binary
		}
		args = append(args, "-o", "prog", ".")
		ctx, cancel := context.WithTimeout(context.Background(), 60*time.Minute)
		cmd := exec.CommandContext(ctx, "go", args...)
		cmd.Dir = dir
		cmd.Env = goEnv()
		var out bytes.Buffer
		cmd.Stdout, cmd.Stderr = &out, &out
		err := cmd.Run()
		cancel()
		if err == nil {
			return filepath.Join(dir, "prog"), errs
		}
		// attribute compiler errors to programs
		found := false
		for _, line := range strings.Split(out.String(), "\n") {
			if m := buildErrLineRe.FindStringSubmatch(strings.TrimSpace(line)); m != nil {
				k, _ := strconv.Atoi(m[1])
				if live[k] {
					found = true
				}
				if len(errs[k]) < 1500 {
					errs[k] += strings.TrimSpace(line) + "\n"
				}
			}
		}
		if !found {
			panic("infrastructure: go build failed for reasons unrelated to the generated sources:\n" + err.Error() + "\n" + firstLines(out.String(), 40))
		}
		for k := range errs {
			if live[k] {
				delete(live, k)
				os.Remove(filepath.Join(dir, fmt.Sprintf("p%d.go", k)))
			}
		}
	}
	panic("infrastructure: combined build did not converge")
}

type natResult struct {
	CPU      time.Duration
	Status   string // ok | run-timeout | run-unjudged
	Stdout   string
	Stderr   string
	ExitCode int
	GoPanic  bool // the binary died with a Go panic / fatal error
	Rep      report
}

// A native program of the space needs milliseconds of CPU time. One that is still running at the time limit is judged
// to hang only if it was spinning, i.e. it consumed most of that time as CPU time; a run that was merely starved by
// other load on the machine (little CPU time consumed) is repeated once with a longer limit and otherwise left
// unjudged. No verdict is drawn from the wall clock alone.
func runNative(bin string, k int) (res natResult) {
	res = runNativeT(bin, k, 10*time.Second)
	if res.Status == "run-timeout" && res.CPU >= 8*time.Second {
		return res
	}
	if res.Status == "run-timeout" {
		res = runNativeT(bin, k, 60*time.Second)
		if res.Status == "run-timeout" && res.CPU < 20*time.Second {
			res.Status = "run-unjudged" // starved or blocked, not spinning
		}
	}
	return res
}

func runNativeT(bin string, k int, limit time.Duration) (res natResult) {
	rctx, rcancel := context.WithTimeout(context.Background(), limit)
	defer rcancel()
	run := exec.CommandContext(rctx, bin, fmt.Sprint(k))
	run.Dir = filepath.Dir(bin)
	run.Env = goEnv()
	var so, se bytes.Buffer
	run.Stdout, run.Stderr = &so, &se
	err := run.Run()
	res.Stdout, res.Stderr = so.String(), se.String()
	res.Status = "ok"
	if run.ProcessState != nil {
		res.CPU = run.ProcessState.UserTime() + run.ProcessState.SystemTime()
	}
	if rctx.Err() != nil {
		res.Status = "run-timeout"
		return res
	}
	if err != nil {
		ee, ok := err.(*exec.ExitError)
		if !ok {
			panic("infrastructure: cannot run the native binary: " + err.Error())
		}
		res.ExitCode = ee.ExitCode()
	}
	if res.ExitCode == 97 {
		panic("infrastructure: dispatcher does not know program " + fmt.Sprint(k))
	}
	if strings.Contains(res.Stderr, "goroutine ") && hasCrash(res.Stderr) {
		res.GoPanic = true
	}
	res.Rep = parseReport(res.Stderr)
	return res
}

func crashHead(stderr string) string {
	i := strings.Index(stderr, "panic:")
	if j := strings.Index(stderr, "fatal error:"); j >= 0 && (i < 0 || j < i) {
		i = j
	}
	if i < 0 {
		return stderr
	}
	return stderr[i:]
}

var recoveredRe = regexp.MustCompile(`\s*\[recovered\].*`)

var elkFrameRe = regexp.MustCompile(`github\.com/elk-language/elk/[\w/]+\.\(?\*?\w*\)?\.?[\w.\[\]]+`)
var anonInitRe = regexp.MustCompile(`\.init\w*\.func\d+`)
var numRe = regexp.MustCompile(`0x[0-9a-f]+|\b\d+\b`)

// goPanicSig normalises a Go panic / fatal error dump: message plus the first two frames inside the elk module,
// skipping the anonymous bodies of native methods (vm.initX.funcN: which native method was reached is incidental).
func goPanicSig(stderr string) string {
	h := crashHead(stderr)
	first := recoveredRe.ReplaceAllString(strings.SplitN(h, "\n", 2)[0], "")
	msg := numRe.ReplaceAllString(strings.TrimSpace(first), "N")
	if len(msg) > 100 {
		msg = msg[:100]
	}
	sig, n, seen := msg, 0, ""
	for _, f := range elkFrameRe.FindAllString(h, -1) {
		f = strings.TrimPrefix(f, "github.com/elk-language/elk/")
		if f == seen || anonInitRe.MatchString(f) || strings.Contains(f, "vm.(*Thread).run.func") {
			continue
		}
		seen = f
		sig += " @ " + f
		if n++; n == 2 {
			break
		}
	}
	return sig
}

// ---------------------------------------------------------------- per-worker preparation

type rec struct {
	nat   natResult
	it    item
	b     batch
	src   string
	f     front
	key   int
	built bool
	berr  string
}

var prepared map[string]*rec // by batch id + item tag
var nativeBin string

func recKey(b batch, it item) string { return b.ID + "|" + it.Tag }

func progSrc(b batch, it item) string {
	if b.Err || b.Expr != nil {
		return it.Code // uncaught-error programs and packed expression programs are used verbatim
	}
	return assemble([]item{it})
}

// shardOf reads the engine's worker flags (which cases will run in this process).
func shardOf() (shard, n int, skip, only int64) {
	n, only = 1, -1
	for i, a := range os.Args {
		val := ""
		if j := strings.Index(a, "="); j >= 0 {
			val = a[j+1:]
			a = a[:j]
		} else if i+1 < len(os.Args) {
			val = os.Args[i+1]
		}
		switch strings.TrimLeft(a, "-") {
		case "worker":
			fmt.Sscanf(val, "%d/%d", &shard, &n)
		case "skip":
			skip, _ = strconv.ParseInt(val, 10, 64)
		case "only-idx":
			only, _ = strconv.ParseInt(val, 10, 64)
		}
	}
	return
}

func workDir() string {
	return filepath.Join(engine.Root, ".work", "c09", fmt.Sprintf("run-%d", os.Getppid()), fmt.Sprintf("w%d", os.Getpid()))
}

// warmUp: after a change of /repo (or under an overlay) the packages of the elk module have to be recompiled before
// the first native build; worker 0 does that once (compiling, not linking, a package that imports the runtime) while
// the other workers wait for its marker file, instead of sixteen workers compiling the same packages side by side.
func warmUp(shard, n int) {
	root := filepath.Join(engine.Root, ".work", "c09", fmt.Sprintf("run-%d", os.Getppid()))
	marker := filepath.Join(root, "warm.done")
	if _, err := os.Stat(marker); err == nil {
		return
	}
	if shard != 0 && n > 1 {
		for i := 0; i < 12000; i++ { // at most 40 minutes, then build anyway
			if _, err := os.Stat(marker); err == nil {
				return
			}
			time.Sleep(200 * time.Millisecond)
		}
		return
	}
	dir := filepath.Join(root, "warm")
	os.MkdirAll(dir, 0o755)
	sum, _ := os.ReadFile("/repo/go.sum")
	os.WriteFile(filepath.Join(dir, "go.mod"), []byte(goModText), 0o644)
	os.WriteFile(filepath.Join(dir, "go.sum"), sum, 0o644)
	os.WriteFile(filepath.Join(dir, "warm.go"), []byte("package warm\n\nimport (\n\t_ \"github.com/elk-language/elk\"\n\t_ \"github.com/elk-language/elk/value\"\n\t_ \"github.com/elk-language/elk/value/symbol\"\n\t_ \"github.com/elk-language/elk/vm\"\n)\n"), 0o644)
	args := []string{"build", "-tags", "native"}
	if ov := os.Getenv("VERIF_OVERLAY"); ov != "" {
		args = append(args, "-overlay", ov)
	}
	args = append(args, ".")
	cmd := exec.Command("go", args...)
	cmd.Dir = dir
	cmd.Env = goEnv()
	out, err := cmd.CombinedOutput()
	os.RemoveAll(dir)
	if err != nil {
		panic("infrastructure: cannot compile the elk runtime for native builds:\n" + err.Error() + "\n" + firstLines(string(out), 40))
	}
	os.WriteFile(marker, []byte("ok\n"), 0o644)
}

// prepare translates every program of this worker's share and builds the combined binary (once per worker process,
// in Spec.Setup).
func prepare(thorough bool) {
	if prepared != nil {
		return
	}
	prepared = map[string]*rec{}
	shard, n, skip, only := shardOf()
	var recs []*rec
	for i, b := range space(thorough) {
		idx := int64(i)
		mine := idx >= skip && int(idx%int64(n)) == shard
		if only >= 0 {
			mine = idx == only
		}
		if !mine {
			continue
		}
		for _, it := range b.Items {
			recs = append(recs, &rec{it: it, b: b, src: progSrc(b, it)})
		}
	}
	srcs := make([]string, len(recs))
	for i, rc := range recs {
		srcs[i] = rc.src
	}
	fs := fronts(srcs)
	goSrcs := map[int][]byte{}
	for i, rc := range recs {
		rc.f = fs[i]
		rc.key = i
		prepared[recKey(rc.b, rc.it)] = rc
		if rc.f.Status == "ok" && !rc.f.VM.Rejected {
			goSrcs[i] = rc.f.GoSrc
		}
	}
	if len(goSrcs) == 0 {
		return
	}
	warmUp(shard, n)
	dir := workDir()
	bin, errs := buildCombined(dir, goSrcs)
	nativeBin = bin
	for i, rc := range recs {
		if _, ok := goSrcs[i]; ok {
			if e, bad := errs[i]; bad {
				rc.berr = e
			} else {
				rc.built = true
			}
		}
	}
	// run every built program now, four at a time (so that hanging programs overlap)
	var wg sync.WaitGroup
	sem := make(chan struct{}, 4)
	for _, rc := range recs {
		if !rc.built {
			continue
		}
		wg.Add(1)
		go func(rc *rec) {
			defer wg.Done()
			sem <- struct{}{}
			rc.nat = runNative(bin, rc.key)
			<-sem
		}(rc)
	}
	wg.Wait()
	// only the binary is needed from here on (replays)
	ents, _ := os.ReadDir(dir)
	for _, e := range ents {
		if e.Name() != "prog" {
			os.RemoveAll(filepath.Join(dir, e.Name()))
		}
	}
}

// ---------------------------------------------------------------- comparison

func firstLines(s string, n int) string {
	l := strings.Split(s, "\n")
	if len(l) > n {
		l = append(l[:n], "…")
	}
	return strings.Join(l, "\n")
}

// firstDiff describes the first differing line of two outputs.
func firstDiff(a, b string) string {
	la, lb := strings.Split(a, "\n"), strings.Split(b, "\n")
	for i := 0; i < len(la) || i < len(lb); i++ {
		var x, y string = "<end of output>", "<end of output>"
		if i < len(la) {
			x = la[i]
		}
		if i < len(lb) {
			y = lb[i]
		}
		if x != y {
			return fmt.Sprintf("first difference at output line %d: VM %q, native %q", i+1, x, y)
		}
	}
	return "equal"
}

func notAccepted(r *engine.R, status, detail string) {
	switch status {
	case "rejected":
		r.Count("programs_backend_rejected", 1)
		r.Outcome("backend rejects: " + firstLines(detail, 1))
	case "backend-panic":
		// a Go panic of the backend is not an "accepted" program: outside this property's quantifier; recorded
		r.Count("programs_backend_go_panic_while_compiling", 1)
		r.Count("backend panic: "+firstLines(detail, 1), 1)
		r.Outcome("backend panics: " + firstLines(detail, 1))
	}
}

func checkItem(r *engine.R, rc *rec) {
	it, src := rc.it, rc.src
	vmr := rc.f.VM
	r.Eval(1)
	if vmr.Rejected {
		// the generator produced an ill-typed program: not part of the space (counted so that it is visible)
		r.Count("programs_rejected_by_checker(excluded)", 1)
		r.Note("ill-typed program " + it.Tag + ": " + firstLines(vmr.Diags, 2))
		r.Outcome("excluded: ill-typed")
		return
	}
	switch rc.f.Status {
	case "rejected", "backend-panic":
		if vmr.Panic != "" {
			// both sides share the crashing front end: no accepted program, no reference behaviour; recorded
			r.Count("programs_both_sides_go_panic(excluded)", 1)
		}
		notAccepted(r, rc.f.Status, rc.f.Detail)
		return
	case "gofmt-error":
		r.NT(1)
		r.Violation("generated Go does not parse: "+it.Sig, fmt.Sprintf("%s\n--- go/format: %s", src, rc.f.Detail), src)
		r.Outcome("violation: generated Go does not parse")
		return
	}
	r.NT(1)
	r.Count("programs_compiled_natively", 1)
	if rc.berr != "" {
		r.Violation("generated Go does not compile: "+buildErrSig(rc.berr), fmt.Sprintf("construct: %s\n%s\n--- go build:\n%s", it.Sig, src, firstLines(rc.berr, 12)), src)
		r.Outcome("violation: go build error")
		return
	}
	if !rc.built {
		panic("internal: program neither built nor failed: " + it.Tag)
	}
	nat := rc.nat
	if nat.Status == "run-unjudged" {
		r.Capped("native run of " + it.Tag + " neither finished nor consumed CPU time (starved machine?): not judged")
		r.Outcome("not judged: native run starved")
		return
	}
	if nat.Status == "run-timeout" {
		r.Violation("native binary hangs: "+hangSigClass(it.Sig), fmt.Sprintf("%s\n--- VM finished (failed=%v) with stdout %q; the native binary was still spinning at the time limit (8 s of CPU time within 10 s, or 20 s within 60 s; it needs milliseconds)", src, vmr.Failed, vmr.Stdout), src)
		r.Outcome("violation: native hang")
		return
	}
	natFailed := nat.ExitCode != 0
	if vmr.Panic != "" {
		// the backend accepted the program and the binary ran, but `elk run` dies with a Go panic / fatal error
		nd := fmt.Sprintf("exit=%d stdout=%q", nat.ExitCode, nat.Stdout)
		if nat.GoPanic {
			nd = "also dies with a Go panic: " + goPanicSig(nat.Stderr)
		}
		r.Violation("VM dies with a Go panic on a program the backend accepts: "+vmr.PanicSig,
			fmt.Sprintf("construct: %s\n%s\n--- VM: %s\n%s\n--- native: %s", it.Sig, src, vmr.PanicSig, firstLines(vmr.Stack, 12), nd), src)
		r.Outcome("violation: VM go panic")
		return
	}
	if nat.GoPanic {
		r.Violation("native binary dies with a Go panic: "+goPanicSig(nat.Stderr),
			fmt.Sprintf("construct: %s\n%s\n--- VM: failed=%v stdout=%q %s\n--- native stdout=%q stderr:\n%s", it.Sig, src, vmr.Failed, vmr.Stdout, vmr.Rep.Head, nat.Stdout, firstLines(nat.Stderr, 14)), src)
		r.Outcome("violation: native go panic")
		return
	}
	ok := true
	statusDiffers := natFailed != vmr.Failed
	headDiffers := vmr.Failed && natFailed && vmr.Rep.Head != nat.Rep.Head
	// when one side stops early with an uncaught error, the shorter stdout is a consequence: one violation, not two
	truncated := (statusDiffers || headDiffers) && (strings.HasPrefix(vmr.Stdout, nat.Stdout) || strings.HasPrefix(nat.Stdout, vmr.Stdout))
	if nat.Stdout != vmr.Stdout && !truncated {
		ok = false
		r.Violation("stdout differs: "+it.Sig,
			fmt.Sprintf("%s\n--- %s\n--- VM failed=%v; native exit=%d %s", src, firstDiff(vmr.Stdout, nat.Stdout), vmr.Failed, nat.ExitCode, firstLines(nat.Stderr, 6)), src)
	}
	switch {
	case !ok:
		// stdout already diverged before either side stopped: a later uncaught error on one side is a consequence
		// (described in the detail above), not a second finding
	case statusDiffers && natFailed:
		ok = false
		sig := "native-only uncaught error: " + normHead(nat.Rep.Head)
		if catchRe.MatchString(src) {
			// the VM caught it: which error class escapes is incidental
			sig = "native-only uncaught error: raised inside do/catch and not caught"
		}
		r.Violation(sig,
			fmt.Sprintf("construct: %s\n%s\n--- VM: succeeds, stdout %q\n--- native: exit=%d stdout %q stderr:\n%s", it.Sig, src, vmr.Stdout, nat.ExitCode, nat.Stdout, firstLines(nat.Stderr, 10)), src)
	case statusDiffers:
		ok = false
		r.Violation("native run misses the uncaught error: "+normHead(vmr.Rep.Head),
			fmt.Sprintf("construct: %s\n%s\n--- VM: fails: %s stdout %q\n--- native: exit=0 stdout %q", it.Sig, src, vmr.Rep.Head, vmr.Stdout, nat.Stdout), src)
	case headDiffers:
		ok = false
		r.Violation("native-only uncaught error: "+normHead(nat.Rep.Head),
			fmt.Sprintf("construct: %s\n%s\n--- VM:     %s\n--- native: %s\n--- VM stdout %q, native stdout %q", it.Sig, src, vmr.Rep.Head, nat.Rep.Head, vmr.Stdout, nat.Stdout), src)
	case vmr.Failed:
		if !compareReports(r, it, src, vmr.Rep, nat.Rep) {
			ok = false
		}
	case strings.TrimSpace(nat.Stderr) != strings.TrimSpace(vmr.Rep.Raw):
		ok = false
		r.Violation("stderr of a successful run differs: "+it.Sig, fmt.Sprintf("%s\n--- VM stderr %q, native stderr %q", src, vmr.Rep.Raw, nat.Stderr), src)
	}
	switch {
	case !ok:
		r.Outcome("violation: behaviour differs")
	case vmr.Failed:
		r.Outcome("equal: uncaught " + headClass(vmr.Rep.Head))
		r.Count("programs_equal", 1)
	default:
		r.Outcome("equal: success")
		r.Count("programs_equal", 1)
	}
}

var buildErrRe = regexp.MustCompile(`p\d+\.go:\d+:\d+: (.*)`)
var identRe = regexp.MustCompile(`\b(t|l|sym|fn_method|fn_cl|lbl|bi|bf|cc_\w+?_)\d+(_p\d+)?\b`)
var digitsRe = regexp.MustCompile(`\d+`)

func buildErrSig(out string) string {
	m := buildErrRe.FindStringSubmatch(out)
	if m == nil {
		return "?"
	}
	s := identRe.ReplaceAllString(m[1], "${1}N")
	s = digitsRe.ReplaceAllString(s, "N")
	if len(s) > 90 {
		s = s[:90]
	}
	return s
}

func headClass(h string) string {
	h = strings.TrimPrefix(h, "Error! Uncaught error ")
	if i := strings.Index(h, ":"); i > 0 {
		return h[:i]
	}
	return h
}

// compareReports: "the same uncaught-error report" = same headline (error class and message / thrown value) and the
// same frame list (file, function, line, elided tail calls), most recent call last.
func compareReports(r *engine.R, it item, src string, v, n report) bool {
	ok := true
	both := fmt.Sprintf("%s\n--- VM report:\n%s--- native report:\n%s", src, v.Raw, n.Raw)
	if len(v.Frames) != len(n.Frames) {
		ok = false
		what := "frames missing"
		if len(n.Frames) > len(v.Frames) {
			what = "extra frames"
		}
		r.Violation("uncaught-error report: "+what+" in the native stack trace", fmt.Sprintf("construct: %s\nVM %d frames, native %d frames\n%s", it.Sig, len(v.Frames), len(n.Frames), both), src)
	}
	for i := 0; i < len(v.Frames) && i < len(n.Frames); i++ {
		a, b := v.Frames[i], n.Frames[i]
		pos := "inner"
		if i == 0 {
			pos = "top-level"
		}
		if a.File != b.File || a.Func != b.Func {
			ok = false
			what := "file/function differ"
			if a.File == b.Func && a.Func == b.File {
				what = "file and function swapped"
			} else if a.Func == b.Func {
				what = "file differs"
			} else if a.File == b.File {
				what = "function differs"
			}
			r.Violation(fmt.Sprintf("uncaught-error report: %s frame %s", pos, what),
				fmt.Sprintf("construct: %s\nframe %d: VM `%s:%d, in %s`, native `%s:%d, in %s`\n%s", it.Sig, i, a.File, a.Line, a.Func, b.File, b.Line, b.Func, both), src)
		}
		if a.Line != b.Line {
			ok = false
			r.Violation(fmt.Sprintf("uncaught-error report: %s frame line differs (%s)", pos, lineSigClass(it.Sig)),
				fmt.Sprintf("construct: %s\nframe %d: VM line %d, native line %d\n%s", it.Sig, i, a.Line, b.Line, both), src)
		}
		if a.Tail != b.Tail {
			ok = false
			r.Violation("uncaught-error report: elided tail calls differ", fmt.Sprintf("construct: %s\n%s", it.Sig, both), src)
		}
	}
	return ok
}

// lineSigClass: what determines where the backend records line numbers: whether the error is raised directly in the
// frame or inside something the frame called.
func lineSigClass(sig string) string {
	if strings.Contains(sig, "depth=0") {
		return "error raised directly in the frame"
	}
	return "error raised inside a callee of the frame"
}

var cfInnerRe = regexp.MustCompile(`^control-flow .*\b(inner=\S+).*$`)

// hangSigClass: which loops surround the jump is incidental to a hang (and whether a given spinning program can be
// judged depends on the load of the machine): control-flow items are classed by their innermost construct only.
func hangSigClass(sig string) string {
	return cfInnerRe.ReplaceAllString(sig, "control-flow $1")
}

var backquoteRe = regexp.MustCompile("`[^`]*`")
var catchRe = regexp.MustCompile(`(?m)^\s*catch\b`)

// normHead turns an uncaught-error headline into a signature fragment: class and message without concrete values.
func normHead(h string) string {
	h = strings.TrimPrefix(h, "Error! Uncaught error ")
	h = strings.TrimPrefix(h, "Error! ")
	h = backquoteRe.ReplaceAllString(h, "`…`")
	h = digitsRe.ReplaceAllString(h, "N")
	if len(h) > 110 {
		h = h[:110]
	}
	return h
}

func runBatch(c *engine.Ctx, r *engine.R, b batch) {
	prepare(c.Thorough)
	for _, it := range b.Items {
		rc := prepared[recKey(b, it)]
		if rc == nil {
			panic("internal: program not prepared: " + recKey(b, it))
		}
		if b.Expr != nil {
			checkExprProgram(r, rc, b.Expr)
		} else {
			checkItem(r, rc)
		}
	}
	if b.Expr != nil {
		return // too large for a sample
	}
	r.Sample(progSrc(b, b.Items[0]))
}

// ---------------------------------------------------------------- main

func main() {
	if m := os.Getenv("C09_CHILD"); m != "" {
		childMain(m)
		return
	}
	if t := os.Getenv("C09_VMONLY"); t != "" {
		vmOnly(t)
		return
	}
	if t := os.Getenv("C09_EXPRDUMP"); t != "" {
		etDump(t)
		return
	}
	if a := os.Getenv("C09_EXPRONE"); a != "" {
		etOne(a)
		return
	}
	if f := os.Getenv("C09_ONE"); f != "" {
		one(f)
		return
	}
	engine.Main(&engine.Spec{
		Prop:  "C09",
		Level: "exploration",
		Rule:  rule,
		Assume: []string{
			"the bytecode VM run in-process (vm.New + InterpretTopLevel + vm.PrintError) is what `elk run` does",
			"compiling the generated file as file pK.go of one scratch module (module main, -tags native, replace elk => /repo; its package-level identifiers consistently renamed with the suffix _pK, one process per program run through a dispatcher) is equivalent to elk.compileResult's one-binary-per-program build; the package-level initialisers (symbol interning, empty call caches) of the other programs of the same binary run too",
			"method bodies compiled one at a time (MethodCheckConcurrencyLimit=1)",
		},
		// translation and build of the worker's whole share happen before the first case: a failure there is an
		// infrastructure error (exit 2), not a verdict
		Setup:            func(c *engine.Ctx) { prepare(c.Thorough) },
		Run:              func(c *engine.Ctx) { run(c) },
		CaseTimeout:      10 * time.Minute,
		QuickDeadline:    12 * time.Minute,
		ThoroughDeadline: 55 * time.Minute,
		Finish: func(a *engine.Agg) {
			os.RemoveAll(filepath.Join(engine.Root, ".work", "c09", fmt.Sprintf("run-%d", os.Getpid())))
			etFinish(a)
		},
	})
}

// one: development aid — C09_ONE=file.elk bin/c09 prints both sides.
func one(file string) {
	b, err := os.ReadFile(file)
	if err != nil {
		fmt.Println(err)
		os.Exit(2)
	}
	src := string(b)
	f := fronts([]string{src})[0]
	v := f.VM
	fmt.Printf("== VM: rejected=%v panic=%q failed=%v\n-- stdout:\n%s-- report:\n%s\n%s", v.Rejected, v.PanicSig, v.Failed, v.Stdout, v.Rep.Raw, v.Diags)
	fmt.Printf("== native gen: %s %s\n", f.Status, firstLines(f.Detail, 30))
	if os.Getenv("C09_SHOW") != "" {
		os.Stdout.Write(f.GoSrc)
	}
	if f.Status != "ok" || os.Getenv("C09_GENONLY") != "" {
		return
	}
	dir := filepath.Join(engine.Root, ".work", "c09", fmt.Sprintf("one-%d", os.Getpid()))
	defer os.RemoveAll(dir)
	t0 := time.Now()
	bin, errs := buildCombined(dir, map[int][]byte{0: f.GoSrc})
	if e := errs[0]; e != "" {
		fmt.Printf("== native: build error (%.1fs)\n%s\n", time.Since(t0).Seconds(), e)
		return
	}
	n := runNative(bin, 0)
	fmt.Printf("== native: %s exit=%d gopanic=%v (%.1fs)\n-- stdout:\n%s-- stderr:\n%s\n", n.Status, n.ExitCode, n.GoPanic, time.Since(t0).Seconds(), n.Stdout, n.Stderr)
	fmt.Println("== stdout", firstDiff(v.Stdout, n.Stdout))
}
