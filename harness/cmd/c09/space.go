package main

import (
	"fmt"
	"os"
	"regexp"
	"strings"

	"verifharness/engine"
)

const rule = "explicitly enumerated program space inside the Go backend's subset; every program is run on the VM and (when the backend accepts it) built and run natively: " +
	"(ops) every binary operator of Int, Float, String and Int×Float × forms {literal, locals, typed method parameters, explicit method call, union-typed, compound assignment} × a fixed operand-pair list; unary operators; " +
	"(cf) control-flow nestings of depth ≤ 2 over {if, if-else, unless, while, until, loop, for-in range, for-in list, fornum, switch} × inner {println, if, if-else, while, loop, for-in, break, continue, return, labelled break, if-value, break-with-value} in methods (and at top level: quick tier only println, break, continue, if-value), each method called with n ∈ 0..3; " +
	"(meth) typed/optional/named/rest parameters, recursion, classes, modules; (coll) list/tuple/map/set/range literals × element kinds × {inspect, length, index, store, append, concat, iterate, map with closure}; " +
	"(str) interpolation and String methods; (clos) closures capturing and mutating locals; (sel) switch/logical/nil-handling; (catch) do/catch/finally; " +
	"(err) one program per uncaught-error kind {Int / 0, Int % 0, list index, tuple index, must nil, failed as-cast, thrown symbol} × call depth 0..2 × raising site {assignment, argument, statement} plus class-method/closure/loop frames. " +
	"(expr) Int expression trees, bounded-exhaustive: every binary tree shape with n operators × every operator assignment over {+, -, *, /, %} × every assignment of leaf kinds {Int literal, literal beyond 64 bits, local, method parameter, loop variable of `for i in 6`, result of an Int-returning call, temporary `(y / 2)` / `(y % 10)`} to the leaves (leaf values depend on kind and position only; trees with a zero divisor are left out by a big-integer model and counted; literal-only subtrees are folded by the compiler and count as literals): in method bodies n = 1 and n = 2 with all seven kinds, n = 3: the full tree (L op L) op (L op L) with {literal, local, temporary}, the left and right spines with {literal, temporary} and with {local, temporary}; at the top level (no parameters, pure callee) n = 1 with six kinds and n = 2 with {literal, local, loop variable, temporary} and with {literal, call}. The expressions are packed round-robin into 16 + 16 programs, `v := <expr>` each and one `println(\"#k\", v…)` per 8 of them (every value on its own line), 64 per method; outputs are compared expression by expression, and differing expressions are localised per program to the operator/operand-class pattern (operator, operand classes narrow / big / wide / temp / inline-expr; whether an operand needing a temporary is evaluated later or earlier in the enclosing expression; position, sibling class or parent operator) that most of them share with a precision ≥ 0.7, refinements of one pattern being folded across programs. Thorough tier: adds the literal 2**63-1 as a leaf kind; n = 1 and (over {literal, big literal, local, temporary}) n = 2 also with {&, |, ^}; comparison operators at the root of n = 1 and n = 2 trees; in methods all five shapes of n = 3 over {literal, local, temporary} and the full tree and spines over {literal, local, loop variable, temporary}; n = 2 over all six kinds at the top level (48 + 48 programs). " +
	"Every other item is its own program (a case groups the items of one construct); the thorough tier adds operand pairs (boundary Ints, signed zeros, float division by zero), every raising site of every error kind and depth-3 control-flow nestings (loop × {if, while, for-in} × {println, break, continue, return, labelled break, break-with-value}). " +
	"Non-trivial = a program that the backend accepted and that was built and executed (a packed expression program counts once; its expressions are counted in expr_trees_compared); rejected/backend-panicking programs are counted separately and are not violations."

// item: one independent construct instance. Defs go to the top of the program (callee first), Code is top-level code.
type item struct {
	Tag  string // printed as marker "@@ <tag>"; unique in the batch
	Sig  string // defect-signature class of the construct
	Defs string
	Code string
}

type batch struct {
	ID     string
	Family string
	Items  []item
	Err    bool       // uncaught-error program (single item)
	Expr   *etProgram // packed expression-tree program (single item, used verbatim; see exprtree.go)
}

// ib builds one item with unique names.
type ib struct {
	pre  string
	n    int
	defs strings.Builder
	code strings.Builder
	tag  string
}

func newIB(tag, pre string) *ib { return &ib{tag: tag, pre: pre} }

func (b *ib) fresh() string { b.n++; return fmt.Sprintf("%s_v%d", b.pre, b.n) }

// obs emits a top-level observation of expr (bound to a local first: see README gotchas).
func (b *ib) obs(label, expr string) {
	v := b.fresh()
	fmt.Fprintf(&b.code, "%s := %s\nprintln(\"%s/%s \" + %s.inspect)\n", v, expr, b.tag, label, v)
}
func (b *ib) line(format string, a ...any) { fmt.Fprintf(&b.code, format+"\n", a...) }
func (b *ib) def(format string, a ...any)  { fmt.Fprintf(&b.defs, format+"\n", a...) }
func (b *ib) item(sig string) item {
	return item{Tag: b.tag, Sig: sig, Defs: b.defs.String(), Code: b.code.String()}
}

func assemble(items []item) string {
	var s strings.Builder
	for _, it := range items {
		s.WriteString(it.Defs)
	}
	for _, it := range items {
		fmt.Fprintf(&s, "println(\"@@ %s\")\n", it.Tag)
		s.WriteString(it.Code)
	}
	return s.String()
}

// ------------------------------------------------------------------ operators

type opdef struct {
	sym, name string
	res       string // result type in a typed method
	compound  bool
	union     bool
}

var intOps = []opdef{
	{"+", "add", "Int", true, true}, {"-", "sub", "Int", true, true}, {"*", "mul", "Int", true, true},
	{"/", "div", "Int", true, true}, {"%", "mod", "Int", true, true}, {"**", "pow", "Int", true, true},
	{"<", "lt", "bool", false, true}, {"<=", "le", "bool", false, true}, {">", "gt", "bool", false, true}, {">=", "ge", "bool", false, true},
	{"==", "eq", "bool", false, true}, {"!=", "ne", "bool", false, true}, {"<=>", "cmp", "Int?", false, false},
	{"&", "and", "Int", true, false}, {"|", "or", "Int", true, false}, {"^", "xor", "Int", true, false},
	{"<<", "shl", "Int", true, false}, {">>", "shr", "Int", true, false},
}

var floatOps = []opdef{
	{"+", "add", "Float", true, true}, {"-", "sub", "Float", true, true}, {"*", "mul", "Float", true, true},
	{"/", "div", "Float", true, true}, {"%", "mod", "Float", true, true}, {"**", "pow", "Float", true, true},
	{"<", "lt", "bool", false, true}, {"<=", "le", "bool", false, true}, {">", "gt", "bool", false, true}, {">=", "ge", "bool", false, true},
	{"==", "eq", "bool", false, true}, {"!=", "ne", "bool", false, true},
}

var stringOps = []opdef{
	{"+", "add", "String", true, false}, {"-", "sub", "String", false, false},
	{"<", "lt", "bool", false, false}, {"<=", "le", "bool", false, false}, {">", "gt", "bool", false, false}, {">=", "ge", "bool", false, false},
	{"==", "eq", "bool", false, false}, {"!=", "ne", "bool", false, false}, {"<=>", "cmp", "Int", false, false},
}

func lit(s string) string {
	if strings.HasPrefix(s, "-") {
		return "(" + s + ")"
	}
	return s
}

func intPairs(op string, thorough bool) [][2]string {
	switch op {
	case "<<", ">>":
		p := [][2]string{{"7", "1"}, {"-7", "3"}, {"1", "65"}, {"18446744073709551616", "2"}}
		if thorough {
			p = append(p, [2]string{"5", "62"}, [2]string{"5", "63"}, [2]string{"-1", "64"}, [2]string{"3", "-1"})
		}
		return p
	case "**":
		p := [][2]string{{"7", "0"}, {"-7", "3"}, {"2", "64"}, {"10", "10"}}
		if thorough {
			p = append(p, [2]string{"0", "0"}, [2]string{"3", "40"}, [2]string{"-2", "63"})
		}
		return p
	}
	p := [][2]string{{"7", "3"}, {"-7", "3"}, {"7", "-3"}, {"0", "5"}, {"3", "3"}, {"9223372036854775807", "2"}, {"18446744073709551616", "3"}, {"3", "18446744073709551616"}}
	if thorough {
		p = append(p, [2]string{"-9223372036854775808", "-1"}, [2]string{"4611686018427387904", "4611686018427387904"}, [2]string{"-18446744073709551616", "18446744073709551616"},
			[2]string{"1", "1"}, [2]string{"-1", "9223372036854775807"}, [2]string{"1000000007", "998244353"})
	}
	return p
}

func floatPairs(op string, thorough bool) [][2]string {
	p := [][2]string{{"3.5", "1.25"}, {"-7.5", "2.0"}, {"0.0", "4.0"}, {"2.0", "0.5"}, {"1e300", "1e10"}, {"2.5", "2.5"}}
	if op == "**" {
		p = [][2]string{{"3.5", "2.0"}, {"2.0", "0.5"}, {"2.5", "-1.0"}, {"0.0", "0.0"}}
	}
	if thorough {
		p = append(p, [2]string{"0.1", "0.2"}, [2]string{"-0.0", "0.0"}, [2]string{"1e-300", "1e300"}, [2]string{"123456789.125", "0.001"})
		if op == "/" || op == "%" {
			p = append(p, [2]string{"1.0", "0.0"}, [2]string{"-1.0", "0.0"})
		}
	}
	return p
}

func stringPairs(thorough bool) [][2]string {
	p := [][2]string{{`"abc"`, `"b"`}, {`""`, `"x"`}, {`"héllo"`, `"héllo"`}, {`"abc"`, `"abc"`}, {`"abcabc"`, `"abc"`}}
	if thorough {
		p = append(p, [2]string{`"a"`, `""`}, [2]string{`"Z"`, `"a"`}, [2]string{`"日本"`, `"本"`}, [2]string{`"a b"`, `" b"`})
	}
	return p
}

var opForms = []string{"lit", "local", "typed", "method", "union", "compound"}

// opItem builds the item for (type, op, form): every operand pair is one observation.
func opItem(typ string, op opdef, form string, pairs [][2]string, rhsType string) (item, bool) {
	tl := strings.ToLower(typ[:1])
	if rhsType != typ {
		tl += strings.ToLower(rhsType[:1])
	}
	pre := fmt.Sprintf("%s%s%s", tl, op.name, form)
	b := newIB(fmt.Sprintf("%s.%s.%s", tl, op.name, form), pre)
	sig := fmt.Sprintf("%s %s %s form=%s", typ, op.sym, rhsType, form)
	// nilable result (Int#<=>): observed through ?? so that the observed value has an inspect method
	wrap := func(e string) string {
		if strings.HasSuffix(op.res, "?") {
			return "(" + e + ") ?? -9"
		}
		return e
	}
	switch form {
	case "lit":
		for i, p := range pairs {
			b.obs(fmt.Sprint(i), wrap(fmt.Sprintf("%s %s %s", lit(p[0]), op.sym, lit(p[1]))))
		}
	case "local":
		for i, p := range pairs {
			x, y := b.fresh(), b.fresh()
			b.line("%s := %s\n%s := %s", x, p[0], y, p[1])
			b.obs(fmt.Sprint(i), wrap(fmt.Sprintf("%s %s %s", x, op.sym, y)))
		}
	case "typed":
		b.def("def %s_t(a: %s, b: %s): %s then a %s b", pre, typ, rhsType, op.res, op.sym)
		for i, p := range pairs {
			b.obs(fmt.Sprint(i), wrap(fmt.Sprintf("%s_t(%s, %s)", pre, p[0], p[1])))
		}
	case "method":
		if op.sym == "!=" {
			return item{}, false // not a method
		}
		b.def("def %s_m(a: %s, b: %s): %s then a.%s(b)", pre, typ, rhsType, op.res, op.sym)
		for i, p := range pairs {
			b.obs(fmt.Sprint(i), wrap(fmt.Sprintf("%s_m(%s, %s)", pre, p[0], p[1])))
		}
	case "union":
		if !op.union {
			return item{}, false
		}
		for i, p := range pairs {
			x := b.fresh()
			b.line("var %s: Int | Float = %s", x, p[0])
			b.obs(fmt.Sprint(i), fmt.Sprintf("%s %s %s", x, op.sym, lit(p[1])))
		}
	case "compound":
		if !op.compound || typ != rhsType && op.res != typ {
			return item{}, false
		}
		for i, p := range pairs {
			x := b.fresh()
			b.line("%s := %s\n%s %s= %s", x, p[0], x, op.sym, lit(p[1]))
			b.obs(fmt.Sprint(i), x)
		}
	}
	return b.item(sig), true
}

func opBatches(thorough bool) []batch {
	var out []batch
	add := func(fam, typ, rhs string, ops []opdef, pairs func(op string) [][2]string) {
		for _, op := range ops {
			var items []item
			for _, f := range opForms {
				if it, ok := opItem(typ, op, f, pairs(op.sym), rhs); ok {
					items = append(items, it)
				}
			}
			out = append(out, batch{ID: fmt.Sprintf("ops/%s/%s", fam, op.name), Family: "ops-" + fam, Items: items})
		}
	}
	add("int", "Int", "Int", intOps, func(op string) [][2]string { return intPairs(op, thorough) })
	add("float", "Float", "Float", floatOps, func(op string) [][2]string { return floatPairs(op, thorough) })
	add("string", "String", "String", stringOps, func(op string) [][2]string { return stringPairs(thorough) })
	// mixed Int × Float and Float × Int (coercion paths)
	mixOps := []opdef{floatOps[0], floatOps[1], floatOps[2], floatOps[3], floatOps[6], floatOps[9], floatOps[10]}
	for i := range mixOps {
		mixOps[i].compound = false
		mixOps[i].union = false
	}
	add("int-float", "Int", "Float", mixOps, func(op string) [][2]string {
		return [][2]string{{"7", "2.5"}, {"-3", "0.5"}, {"0", "1.5"}, {"2", "2.0"}}
	})
	add("float-int", "Float", "Int", mixOps, func(op string) [][2]string {
		return [][2]string{{"2.5", "7"}, {"0.5", "-3"}, {"1.5", "2"}, {"2.0", "2"}}
	})
	// String * Int
	{
		var items []item
		for _, f := range []string{"lit", "local", "typed", "method"} {
			op := opdef{"*", "rep", "String", false, false}
			if it, ok := opItem("String", op, f, [][2]string{{`"ab"`, "3"}, {`"x"`, "0"}, {`""`, "5"}, {`"é"`, "2"}}, "Int"); ok {
				items = append(items, it)
			}
		}
		out = append(out, batch{ID: "ops/string/rep", Family: "ops-string", Items: items})
	}
	// unary operators
	{
		var items []item
		un := []struct {
			typ, sym, name, res string
			vals                []string
		}{
			{"Int", "-", "neg", "Int", []string{"7", "-7", "0", "9223372036854775807", "18446744073709551616"}},
			{"Int", "+", "pos", "Int", []string{"7", "-7"}},
			{"Int", "~", "not", "Int", []string{"7", "-7", "0", "18446744073709551616"}},
			{"Float", "-", "fneg", "Float", []string{"2.5", "-2.5", "0.0"}},
			{"bool", "!", "bang", "bool", []string{"true", "false"}},
		}
		for _, u := range un {
			for _, form := range []string{"local", "typed"} {
				pre := "u" + u.name + form
				b := newIB("u."+u.name+"."+form, pre)
				if form == "typed" {
					b.def("def %s_t(a: %s): %s then %sa", pre, u.typ, u.res, u.sym)
				}
				for i, v := range u.vals {
					if form == "local" {
						x := b.fresh()
						b.line("%s := %s", x, v)
						b.obs(fmt.Sprint(i), u.sym+x)
					} else {
						b.obs(fmt.Sprint(i), fmt.Sprintf("%s_t(%s)", pre, v))
					}
				}
				items = append(items, b.item(fmt.Sprintf("unary %s%s form=%s", u.sym, u.typ, form)))
			}
		}
		out = append(out, batch{ID: "ops/unary", Family: "ops-unary", Items: items})
	}
	return out
}

// ------------------------------------------------------------------ control flow

var cfOuter = []string{"if", "ifelse", "unless", "while", "until", "loop", "forrange", "forlist", "fornum", "switch"}
var cfInner = []string{"print", "if", "ifelse", "while", "loop", "forrange", "break", "continue", "return", "lbreak", "ifvalue", "breakvalue"}

func isLoop(k string) bool {
	switch k {
	case "while", "until", "loop", "forrange", "forlist", "fornum":
		return true
	}
	return false
}

func ind(s string, n int) string {
	pad := strings.Repeat("  ", n)
	var o []string
	for _, l := range strings.Split(strings.TrimRight(s, "\n"), "\n") {
		o = append(o, pad+l)
	}
	return strings.Join(o, "\n") + "\n"
}

// cfInnerCode: statements placed inside the outer construct. n is the parameter, i the outer loop variable (or n).
func cfInnerCode(tag, inner, iv string, inMethod bool, outerLoop bool, lbl string) (string, bool) {
	p := func(s string) string { return fmt.Sprintf("println(\"%s/%s \" + %s.inspect)", tag, s, iv) }
	switch inner {
	case "print":
		return p("p") + "\n", true
	case "if":
		return fmt.Sprintf("if %s == 2\n  %s\nend\n%s\n", iv, p("then"), p("after")), true
	case "ifelse":
		return fmt.Sprintf("if %s == 2\n  %s\nelse\n  %s\nend\n", iv, p("then"), p("else")), true
	case "while":
		return fmt.Sprintf("j := 0\nwhile j < %s\n  j += 1\n  println(\"%s/w \" + j.inspect)\nend\n", iv, tag), true
	case "loop":
		return fmt.Sprintf("j := 0\nloop\n  j += 1\n  break if j > %s\n  println(\"%s/l \" + j.inspect)\nend\n", iv, tag), true
	case "forrange":
		return fmt.Sprintf("for j in 1...%s\n  println(\"%s/f \" + j.inspect)\nend\n", iv, tag), true
	case "break":
		if !outerLoop {
			return "", false
		}
		return fmt.Sprintf("%s\nbreak if %s == 2\n%s\n", p("pre"), iv, p("post")), true
	case "continue":
		if !outerLoop {
			return "", false
		}
		return fmt.Sprintf("%s\ncontinue if %s == 2\n%s\n", p("pre"), iv, p("post")), true
	case "return":
		if !inMethod {
			return "", false
		}
		return fmt.Sprintf("%s\nreturn 100 + %s if %s == 2\n%s\n", p("pre"), iv, iv, p("post")), true
	case "lbreak":
		if !outerLoop {
			return "", false
		}
		return fmt.Sprintf("j := 0\nwhile j < 3\n  j += 1\n  break[$%s] if j == 2 && %s == 2\n  println(\"%s/lb \" + j.inspect)\nend\n", lbl, iv, tag), true
	case "ifvalue":
		return fmt.Sprintf("x := if %s == 2 then 10 else 20\nprintln(\"%s/iv \" + x.inspect)\n", iv, tag), true
	case "breakvalue":
		return fmt.Sprintf("j := 0\ny := loop\n  j += 1\n  break j * 10 if j > %s\nend\nprintln(\"%s/bv \" + y.inspect)\n", iv, tag), true
	}
	return "", false
}

// cfBody builds the body (statements using parameter/local n) of one (outer, inner) nesting.
func cfBody(tag, outer, inner string, inMethod bool) (string, bool) {
	lbl := "o"
	iv := "n"
	if isLoop(outer) {
		iv = "i"
	}
	if outer == "forlist" {
		iv = "e"
	}
	in, ok := cfInnerCode(tag, inner, iv, inMethod, isLoop(outer), lbl)
	if !ok {
		return "", false
	}
	label := ""
	if inner == "lbreak" {
		label = "$" + lbl + ": "
	}
	var s string
	switch outer {
	case "if":
		s = fmt.Sprintf("if n > 0\n%send\n", ind(in, 1))
	case "ifelse":
		s = fmt.Sprintf("if n > 1\n%selse\n  println(\"%s/oelse \" + n.inspect)\nend\n", ind(in, 1), tag)
	case "unless":
		s = fmt.Sprintf("unless n > 2\n%send\n", ind(in, 1))
	case "while":
		s = fmt.Sprintf("i := 0\n%swhile i < n\n  i += 1\n%send\n", label, ind(in, 1))
	case "until":
		s = fmt.Sprintf("i := 0\n%suntil i >= n\n  i += 1\n%send\n", label, ind(in, 1))
	case "loop":
		s = fmt.Sprintf("i := 0\n%sloop\n  i += 1\n  break if i > n\n%send\n", label, ind(in, 1))
	case "forrange":
		s = fmt.Sprintf("%sfor i in 1...n\n%send\n", label, ind(in, 1))
	case "forlist":
		s = fmt.Sprintf("%sfor e in [1, 2, n]\n%send\n", label, ind(in, 1))
	case "fornum":
		s = fmt.Sprintf("%sfornum i := 1; i <= n; i += 1\n%send\n", label, ind(in, 1))
	case "switch":
		s = fmt.Sprintf("switch n\ncase 0\n  println(\"%s/c0 \" + n.inspect)\ncase 1 || 2\n%selse\n  println(\"%s/celse \" + n.inspect)\nend\n", tag, ind(in, 1), tag)
	}
	s += fmt.Sprintf("println(\"%s/end \" + n.inspect)\n", tag)
	return s, true
}

func cfItem(outer, inner string, inMethod bool) (item, bool) {
	ctx := "top"
	if inMethod {
		ctx = "meth"
	}
	tag := fmt.Sprintf("cf.%s.%s.%s", ctx, outer, inner)
	body, ok := cfBody(tag, outer, inner, inMethod)
	if !ok {
		return item{}, false
	}
	name := fmt.Sprintf("cf_%s_%s", outer, inner)
	b := newIB(tag, name)
	if inMethod {
		b.def("def %s(n: Int): Int\n%s  n\nend", name, ind(body, 1))
		for n := 0; n <= 3; n++ {
			b.obs(fmt.Sprintf("ret%d", n), fmt.Sprintf("%s(%d)", name, n))
		}
	} else {
		// top level: one copy of the statements per n, locals renamed apart
		for n := 1; n <= 3; n++ {
			sfx := fmt.Sprintf("_%s_%d", name, n)
			b.line("n%s := %d\n%s", sfx, n, strings.TrimRight(cfVarRe.ReplaceAllString(body, "${1}"+sfx), "\n"))
		}
	}
	return b.item(fmt.Sprintf("control-flow outer=%s inner=%s ctx=%s", outer, inner, ctx)), true
}

var cfVarRe = regexp.MustCompile(`\b([nijexy])\b`)

// cf3Item: depth-3 nesting (thorough tier): loop outer, {if, while, for-in} in the middle, a jump innermost.
func cf3Item(outer, mid, inner string) (item, bool) {
	tag := fmt.Sprintf("cf3.%s.%s.%s", outer, mid, inner)
	iv := "i"
	if outer == "forlist" {
		iv = "e"
	}
	in, ok := cfInnerCode(tag, inner, iv, true, true, "o")
	if !ok {
		return item{}, false
	}
	var m string
	switch mid {
	case "if":
		m = fmt.Sprintf("if %s > 0\n%send\n", iv, ind(in, 1))
	case "while":
		m = fmt.Sprintf("m := 0\nwhile m < 2\n  m += 1\n%send\n", ind(in, 1))
	case "forrange":
		m = fmt.Sprintf("for m in 1...2\n%send\n", ind(in, 1))
	}
	label := ""
	if inner == "lbreak" {
		label = "$o: "
	}
	var s string
	switch outer {
	case "while":
		s = fmt.Sprintf("i := 0\n%swhile i < n\n  i += 1\n%send\n", label, ind(m, 1))
	case "until":
		s = fmt.Sprintf("i := 0\n%suntil i >= n\n  i += 1\n%send\n", label, ind(m, 1))
	case "loop":
		s = fmt.Sprintf("i := 0\n%sloop\n  i += 1\n  break if i > n\n%send\n", label, ind(m, 1))
	case "forrange":
		s = fmt.Sprintf("%sfor i in 1...n\n%send\n", label, ind(m, 1))
	case "forlist":
		s = fmt.Sprintf("%sfor e in [1, 2, n]\n%send\n", label, ind(m, 1))
	case "fornum":
		s = fmt.Sprintf("%sfornum i := 1; i <= n; i += 1\n%send\n", label, ind(m, 1))
	default:
		return item{}, false
	}
	s += fmt.Sprintf("println(\"%s/end \" + n.inspect)\n", tag)
	name := fmt.Sprintf("cf3_%s_%s_%s", outer, mid, inner)
	b := newIB(tag, name)
	b.def("def %s(n: Int): Int\n%s  n\nend", name, ind(s, 1))
	for n := 0; n <= 3; n++ {
		b.obs(fmt.Sprintf("ret%d", n), fmt.Sprintf("%s(%d)", name, n))
	}
	return b.item(fmt.Sprintf("control-flow outer=%s mid=%s inner=%s", outer, mid, inner)), true
}

func cfBatches(thorough bool) []batch {
	var out []batch
	for _, inMethod := range []bool{true, false} {
		for _, o := range cfOuter {
			var items []item
			for _, in := range cfInner {
				if !thorough && !inMethod && in != "print" && in != "break" && in != "continue" && in != "ifvalue" {
					continue // quick tier: the remaining inner constructs at top level are left to the thorough tier
				}
				if it, ok := cfItem(o, in, inMethod); ok {
					items = append(items, it)
				}
			}
			ctx := "top"
			if inMethod {
				ctx = "meth"
			}
			out = append(out, batch{ID: fmt.Sprintf("cf/%s/%s", ctx, o), Family: "control-flow", Items: items})
		}
	}
	if thorough {
		for _, o := range cfOuter {
			if !isLoop(o) {
				continue
			}
			for _, mid := range []string{"if", "while", "forrange"} {
				var items []item
				for _, in := range []string{"print", "break", "continue", "return", "lbreak", "breakvalue"} {
					if it, ok := cf3Item(o, mid, in); ok {
						items = append(items, it)
					}
				}
				out = append(out, batch{ID: fmt.Sprintf("cf3/%s/%s", o, mid), Family: "control-flow", Items: items})
			}
		}
	}
	return out
}

// ------------------------------------------------------------------ hand-written families

type raw struct{ tag, sig, defs, code string }

func rawBatches(family, idPrefix string, groups map[string][]raw, order []string) []batch {
	var out []batch
	for _, g := range order {
		var items []item
		for _, r := range groups[g] {
			items = append(items, item{Tag: r.tag, Sig: r.sig, Defs: r.defs, Code: r.code})
		}
		out = append(out, batch{ID: idPrefix + "/" + g, Family: family, Items: items})
	}
	return out
}

// o: observation helper for hand-written code: binds expr to local v and prints it under tag/label.
func o(tag, label, v, expr string) string {
	return fmt.Sprintf("%s := %s\nprintln(\"%s/%s \" + %s.inspect)\n", v, expr, tag, label, v)
}

func methBatches() []batch {
	g := map[string][]raw{}
	order := []string{"params", "recursion", "class", "module"}
	g["params"] = []raw{
		{"m.opt", "method optional parameter", "def m_opt(a: Int, b: Int = 10): Int then a + b\n", o("m.opt", "1", "m_opt1", "m_opt(1)") + o("m.opt", "2", "m_opt2", "m_opt(1, 2)")},
		{"m.named", "method named arguments", "def m_named(a: Int, b: Int): Int then a - b\n", o("m.named", "1", "m_named1", "m_named(b: 1, a: 5)") + o("m.named", "2", "m_named2", "m_named(5, b: 1)")},
		{"m.rest", "method rest parameter", "def m_rest(*a: Int): Int\n  s := 0\n  for e in a\n    s += e\n  end\n  s\nend\n", o("m.rest", "0", "m_rest0", "m_rest()") + o("m.rest", "3", "m_rest3", "m_rest(1, 2, 3)")},
		{"m.types", "method parameter types String/Float/bool", "def m_s(a: String, n: Int): String then a * n\ndef m_f(a: Float): Float then a * 2.0\ndef m_b(a: bool): bool then !a\n",
			o("m.types", "s", "m_types1", `m_s("ab", 2)`) + o("m.types", "f", "m_types2", "m_f(1.25)") + o("m.types", "b", "m_types3", "m_b(true)")},
		{"m.nilable", "method nilable parameter and result", "def m_nil(a: Int?): Int?\n  return nil if a == nil\n  a\nend\n", "m_nil1 := m_nil(nil)\nm_nil2 := m_nil1 ?? -1\nprintln(\"m.nilable/1 \" + m_nil2.inspect)\nm_nil3 := m_nil(4)\nm_nil4 := m_nil3 ?? -1\nprintln(\"m.nilable/2 \" + m_nil4.inspect)\n"},
		{"m.void", "method without result used as statement", "def m_void(a: Int)\n  println(\"m.void/in \" + a.inspect)\nend\n", "m_void(3)\nm_void(4)\n"},
		{"m.locals", "method locals shadowing and reassignment", "def m_loc(a: Int): Int\n  b := a * 2\n  var c: Int = b + 1\n  c = c * b\n  val d = c - a\n  d\nend\n", o("m.locals", "1", "m_loc1", "m_loc(3)")},
	}
	g["recursion"] = []raw{
		{"m.fib", "recursive method", "def m_fib(n: Int): Int\n  return n if n < 2\n  m_fib(n - 1) + m_fib(n - 2)\nend\n", o("m.fib", "15", "m_fib1", "m_fib(15)")},
		{"m.fact", "recursive method with BigInt result", "def m_fact(n: Int): Int\n  return 1 if n < 2\n  n * m_fact(n - 1)\nend\n", o("m.fact", "25", "m_fact1", "m_fact(25)")},
		{"m.tail", "tail-recursive accumulator method", "def m_acc(n: Int, acc: Int): Int\n  return acc if n == 0\n  m_acc(n - 1, acc + n)\nend\n", o("m.tail", "1000", "m_acc1", "m_acc(1000, 0)")},
		{"m.chain", "method call chain depth 3", "def m_c1(a: Int): Int then a + 1\ndef m_c2(a: Int): Int then m_c1(a) * 2\ndef m_c3(a: Int): Int then m_c2(a) - m_c1(a)\n", o("m.chain", "1", "m_c3v", "m_c3(5)")},
	}
	g["class"] = []raw{
		{"k.attr", "class with attr, init and instance method", "class KAttr\n  attr n: Int\n  init(@n: Int); end\n  def incr: Int then @n += 1\nend\n", "k_attr := KAttr(1)\nk_attr.incr\n" + o("k.attr", "n", "k_attr1", "k_attr.n") + "k_attr.n = 9\n" + o("k.attr", "n2", "k_attr2", "k_attr.n")},
		{"k.meth", "class instance method calling another with self state", "class KMeth\n  getter a: Int\n  init(@a: Int); end\n  def double: Int then @a * 2\n  def quad: Int then self.double * 2\nend\n", "k_meth := KMeth(3)\n" + o("k.meth", "q", "k_meth1", "k_meth.quad")},
		{"k.inherit", "class inheritance and method override", "class KBase\n  def name: String then \"base\"\n  def hello: String then \"hello \" + self.name\nend\nclass KChild < KBase\n  def name: String then \"child\"\nend\n", "k_inh := KChild()\n" + o("k.inherit", "1", "k_inh1", "k_inh.hello") + "k_inh0 := KBase()\n" + o("k.inherit", "2", "k_inh2", "k_inh0.hello")},
		{"k.opdef", "class with user-defined operator", "class KVec\n  getter x: Int\n  init(@x: Int); end\n  def +(other: KVec): KVec then KVec(@x + other.x)\nend\n", "k_vec := KVec(1) + KVec(2)\n" + o("k.opdef", "1", "k_vec1", "k_vec.x")},
		{"k.tostring", "class with a to_string method called explicitly", "class KStr\n  def to_string: String then \"<kstr>\"\nend\n", "k_str := KStr()\nk_str1 := \"v=\" + k_str.to_string\nprintln(\"k.tostring/1 \" + k_str1)\n"},
	}
	g["module"] = []raw{
		{"k.module", "module method", "module KMod\n  def twice(a: Int): Int then a * 2\nend\n", o("k.module", "1", "k_mod1", "KMod.twice(4)")},
		{"k.const", "constant declaration and use", "const K_CONST: Int = 42\n", o("k.const", "1", "k_const1", "K_CONST + 1")},
		{"k.singleton", "singleton method in a class", "class KSing\n  singleton\n    def make: Int then 7\n  end\nend\n", o("k.singleton", "1", "k_sing1", "KSing.make")},
	}
	return rawBatches("methods", "meth", g, order)
}

func collBatches() []batch {
	g := map[string][]raw{}
	order := []string{"list-int", "list-other", "tuple", "map", "set-range"}
	type lk struct {
		name, lit, el, typ string
		n                  int
	}
	// dump observes a list element-wise (length, then v[0..n-1]): `inspect` of a whole collection goes through an
	// interface-typed receiver, which the backend does not translate (recorded once per kind by the .inspect items)
	dump := func(tag, label, v string, n int, nested bool) string {
		s := o(tag, label+".len", v+"_n", v+".length")
		for i := 0; i < n; i++ {
			if nested {
				s += o(tag, fmt.Sprintf("%s.%d.len", label, i), fmt.Sprintf("%s_e%dn", v, i), fmt.Sprintf("%s[%d].length", v, i))
				s += o(tag, fmt.Sprintf("%s.%d.0", label, i), fmt.Sprintf("%s_e%d", v, i), fmt.Sprintf("%s[%d][0]", v, i))
			} else {
				s += o(tag, fmt.Sprintf("%s.%d", label, i), fmt.Sprintf("%s_e%d", v, i), fmt.Sprintf("%s[%d]", v, i))
			}
		}
		return s
	}
	mk := func(k lk) []raw {
		t := "l." + k.name
		v := "l_" + k.name
		nested := k.name == "nested"
		idx := o(t+".index", "0", v+"c1", v+"c[0]") + o(t+".index", "-1", v+"c2", v+"c[-1]")
		if nested {
			idx = o(t+".index", "0", v+"c1", v+"c[0][0]") + o(t+".index", "-1", v+"c2", v+"c[-1][-1]")
		}
		forin := v + "g := " + k.lit + "\nfor " + v + "ge in " + v + "g\n  println(\"" + t + ".forin/e \" + " + v + "ge.inspect)\nend\n"
		if nested {
			forin = v + "g := " + k.lit + "\nfor " + v + "ge in " + v + "g\n  println(\"" + t + ".forin/e \" + " + v + "ge.length.inspect)\nend\n"
		}
		return []raw{
			{t + ".inspect", "ArrayList[" + k.typ + "] literal inspect", "", v + "a := " + k.lit + "\n" + o(t+".inspect", "1", v+"a1", v+"a")},
			{t + ".literal", "ArrayList[" + k.typ + "] literal (element-wise)", "", v + "z := " + k.lit + "\n" + dump(t+".literal", "1", v+"z", k.n, nested)},
			{t + ".index", "ArrayList[" + k.typ + "] subscript", "", v + "c := " + k.lit + "\n" + idx},
			{t + ".store", "ArrayList[" + k.typ + "] subscript store", "", v + "d := " + k.lit + "\n" + v + "d[0] = " + k.el + "\n" + dump(t+".store", "1", v+"d", k.n, nested)},
			{t + ".append", "ArrayList[" + k.typ + "] <<", "", v + "e := " + k.lit + "\n" + v + "e << " + k.el + "\n" + dump(t+".append", "1", v+"e", k.n+1, nested)},
			{t + ".concat", "ArrayList[" + k.typ + "] +", "", v + "f := " + k.lit + "\n" + v + "f2 := " + v + "f + [" + k.el + "]\n" + dump(t+".concat", "1", v+"f2", k.n+1, nested)},
			{t + ".forin", "ArrayList[" + k.typ + "] for-in", "", forin},
			{t + ".eq", "ArrayList[" + k.typ + "] ==", "", v + "h := " + k.lit + "\n" + o(t+".eq", "1", v+"h1", v+"h == "+k.lit) + o(t+".eq", "2", v+"h2", v+"h == ["+k.el+"]")},
			{t + ".contains", "ArrayList[" + k.typ + "] contains", "", v + "i := " + k.lit + "\n" + o(t+".contains", "1", v+"i1", v+"i.contains("+k.el+")")},
		}
	}
	g["list-int"] = append(mk(lk{"int", "[1, 2, 3]", "9", "Int", 3}),
		raw{"l.int.map", "ArrayList[Int] map with closure", "", "l_intm := [1, 2, 3]\nl_intm1 := l_intm.map(|x| -> x * 2)\n" + dump("l.int.map", "1", "l_intm1", 3, false)},
		raw{"l.int.splat", "ArrayList literal with splat", "", "l_ints := [1, 2]\nl_ints1 := [0, *l_ints, 3]\n" + dump("l.int.splat", "1", "l_ints1", 4, false)},
		raw{"l.int.cap", "ArrayList literal with capacity", "", "l_intc1 := [1, 2]:10\n" + dump("l.int.cap", "1", "l_intc1", 2, false)},
		raw{"l.int.sum", "ArrayList[Int] for-in accumulation in method", "def l_sum(l: ArrayList[Int]): Int\n  s := 0\n  for e in l\n    s += e\n  end\n  s\nend\n", o("l.int.sum", "1", "l_intsum1", "l_sum([1, 2, 3, 4])")},
		raw{"l.int.modif", "ArrayList literal with for modifier", "", "l_intmod1 := [i * 2 for i in 1...3]\n" + dump("l.int.modif", "1", "l_intmod1", 3, false)},
	)
	var other []raw
	other = append(other, mk(lk{"float", "[1.5, 2.5]", "0.25", "Float", 2})...)
	other = append(other, mk(lk{"str", `["a", "b"]`, `"z"`, "String", 2})...)
	other = append(other, mk(lk{"nested", "[[1], [2, 3]]", "[7]", "ArrayList[Int]", 2})...)
	other = append(other,
		raw{"l.mixed.inspect", "ArrayList of mixed element types inspect", "", o("l.mixed.inspect", "1", "l_mix1", `[1, "a", 2.5, :s, nil, true]`)},
		raw{"l.empty", "empty typed ArrayList", "", "var l_empty: ArrayList[Int] = []\nl_empty << 1\n" + dump("l.empty", "1", "l_empty", 1, false)},
	)
	g["list-other"] = other
	g["tuple"] = []raw{
		{"t.inspect", "ArrayTuple literal inspect", "", o("t.inspect", "1", "t_a1", "%[1, 2, 3]") + o("t.inspect", "2", "t_a2", `%["a", 2.5]`)},
		{"t.length", "ArrayTuple length", "", "t_b := %[1, 2, 3]\n" + o("t.length", "1", "t_b1", "t_b.length")},
		{"t.index", "ArrayTuple[Int] subscript", "", "t_c := %[1, 2, 3]\n" + o("t.index", "1", "t_c1", "t_c[0]") + o("t.index", "2", "t_c2", "t_c[-1]")},
		{"t.concat", "ArrayTuple +", "", "t_d := %[1, 2]\nt_d1 := t_d + %[3]\n" + dump("t.concat", "1", "t_d1", 3, false)},
		{"t.literal", "ArrayTuple literal (element-wise)", "", "t_h := %[1, 2.5, \"x\"]\n" + o("t.literal", "len", "t_h1", "t_h.length") + "t_i := %[7, 8]\n" + dump("t.literal", "2", "t_i", 2, false)},
		{"t.forin", "ArrayTuple for-in", "", "t_e := %[4, 5]\nfor t_ee in t_e\n  println(\"t.forin/e \" + t_ee.inspect)\nend\n"},
		{"t.eq", "ArrayTuple ==", "", "t_f := %[1, 2]\n" + o("t.eq", "1", "t_f1", "t_f == %[1, 2]") + o("t.eq", "2", "t_f2", "t_f == %[2, 1]")},
		{"t.words", "word / symbol / hex collection literals", "", o("t.words", "w", "t_g1", "%w[a b]") + o("t.words", "s", "t_g2", "%s[a b]") + o("t.words", "x", "t_g3", "%x[ff 10]") + o("t.words", "lw", "t_g4", `\w[a b]`)},
	}
	g["map"] = []raw{
		{"h.inspect1", "HashMap single-pair literal inspect", "", o("h.inspect1", "1", "h_a1", `{ "a" => 1 }`)},
		{"h.length", "HashMap length", "", "h_b := { \"a\" => 1, \"b\" => 2 }\n" + o("h.length", "1", "h_b1", "h_b.length")},
		{"h.get", "HashMap[String, Int] subscript", "", "h_c := { \"a\" => 1, \"b\" => 2 }\nh_c0 := h_c[\"b\"]\nh_c1 := h_c0 ?? -1\nprintln(\"h.get/1 \" + h_c1.inspect)\nh_c2 := h_c[\"zz\"]\nh_c3 := h_c2 ?? -1\nprintln(\"h.get/2 \" + h_c3.inspect)\n"},
		{"h.store", "HashMap subscript store", "", "h_d := { 1 => \"x\" }\nh_d[2] = \"y\"\nh_d[1] = \"z\"\n" + o("h.store", "len", "h_d1", "h_d.length") + "h_d2 := h_d[1]\nh_d3 := h_d2 ?? \"none\"\nprintln(\"h.store/1 \" + h_d3.inspect)\n"},
		{"h.intkeys", "HashMap[Int, Int] lookups in a loop", "", "h_e := { 1 => 10, 2 => 20, 3 => 30 }\nh_es := 0\nfor h_ek in [1, 2, 3, 4]\n  h_ev := h_e[h_ek]\n  h_es += h_ev ?? 1000\nend\nprintln(\"h.intkeys/1 \" + h_es.inspect)\n"},
		{"h.record", "HashRecord single-pair literal inspect", "", o("h.record", "1", "h_f1", "%{ a: 1 }")},
		{"h.recordlen", "HashRecord length", "", "h_f := %{ a: 1, b: 2 }\n" + o("h.recordlen", "len", "h_f2", "h_f.length")},
		{"h.forin", "HashMap single-pair for-in", "", "h_g := { \"k\" => 5 }\nfor h_gp in h_g\n  println(\"h.forin/k \" + h_gp.key.inspect)\n  println(\"h.forin/v \" + h_gp.value.inspect)\nend\n"},
	}
	g["set-range"] = []raw{
		{"s.set", "HashSet literal contains/length", "", "s_a := ^[1, 2, 2, 3]\n" + o("s.set", "len", "s_a1", "s_a.length") + o("s.set", "c1", "s_a2", "s_a.contains(2)") + o("s.set", "c2", "s_a3", "s_a.contains(7)")},
		{"s.setinspect", "HashSet single-element literal inspect", "", o("s.setinspect", "one", "s_a4", "^[5]")},
		{"s.setadd", "HashSet <<", "", "s_b := ^[1]\ns_b << 2\ns_b << 1\n" + o("s.setadd", "len", "s_b1", "s_b.length")},
		{"r.inspect", "Range literals inspect", "", o("r.inspect", "1", "r_a1", "1...5") + o("r.inspect", "2", "r_a2", "1..<5") + o("r.inspect", "3", "r_a3", "1<..5") + o("r.inspect", "4", "r_a4", "1<.<5") + o("r.inspect", "5", "r_a5", "...5") + o("r.inspect", "6", "r_a6", "1...")},
		{"r.forin", "for-in over range kinds", "", "for r_b in 1..<4\n  println(\"r.forin/a \" + r_b.inspect)\nend\nfor r_c in 1<..3\n  println(\"r.forin/b \" + r_c.inspect)\nend\nr_dn := 3\nfor r_d in 0...r_dn\n  println(\"r.forin/c \" + r_d.inspect)\nend\n"},
		{"r.contains", "Range contains", "", "r_e := 1...5\n" + o("r.contains", "1", "r_e1", "r_e.contains(5)") + o("r.contains", "2", "r_e2", "r_e.contains(6)")},
		{"r.float", "Float range", "", o("r.float", "1", "r_f1", "1.5...2.5")},
	}
	return rawBatches("collections", "coll", g, order)
}

func strBatches() []batch {
	g := map[string][]raw{}
	order := []string{"interp", "methods", "scalars"}
	g["interp"] = []raw{
		{"i.int", "interpolation of Int", "", "i_a := 3\ni_a1 := \"x=#{i_a} y=#{i_a + 1}\"\nprintln(\"i.int/1 \" + i_a1)\n"},
		{"i.float", "interpolation of Float", "", "i_b := 2.5\ni_b1 := \"f=#{i_b}\"\nprintln(\"i.float/1 \" + i_b1)\n"},
		{"i.str", "interpolation of String", "", "i_c := \"abc\"\ni_c1 := \"s=#{i_c}!\"\nprintln(\"i.str/1 \" + i_c1)\n"},
		{"i.inspect", "inspect interpolation #{}", "", "i_d := \"abc\"\ni_d1 := \"s=${i_d}\"\nprintln(\"i.inspect/1 \" + i_d1)\n"},
		{"i.list", "interpolation of a list inspect", "", "i_e := [1, 2]\ni_e1 := \"l=#{i_e.inspect}\"\nprintln(\"i.list/1 \" + i_e1)\n"},
		{"i.sym", "interpolation of Symbol/Char/bool/nil", "", "i_f := :sym\ni_g := `c`\ni_h := true\ni_f1 := \"#{i_f} #{i_g} #{i_h} #{nil}\"\nprintln(\"i.sym/1 \" + i_f1)\n"},
		{"i.call", "interpolation of a method call", "def i_m(a: Int): Int then a * 3\n", "i_k1 := \"r=#{i_m(4)}\"\nprintln(\"i.call/1 \" + i_k1)\n"},
		{"i.symlit", "interpolated symbol literal", "", "i_l := 5\n" + o("i.symlit", "1", "i_l1", `:"s#{i_l}"`)},
	}
	g["methods"] = []raw{
		{"sm.length", "String length/byte_count", "", "sm_a := \"héllo\"\n" + o("sm.length", "1", "sm_a1", "sm_a.length") + o("sm.length", "2", "sm_a2", "sm_a.byte_count")},
		{"sm.case", "String uppercase/lowercase", "", "sm_b := \"Abc\"\n" + o("sm.case", "1", "sm_b1", "sm_b.uppercase") + o("sm.case", "2", "sm_b2", "sm_b.lowercase")},
		{"sm.just", "String rjust/ljust", "", "sm_c := \"ab\"\n" + o("sm.just", "1", "sm_c1", "sm_c.rjust(5, `.`)") + o("sm.just", "2", "sm_c2", "sm_c.ljust(5, `.`)")},
		{"sm.charat", "String char_at", "", "sm_d := \"héllo\"\n" + o("sm.charat", "1", "sm_d1", "sm_d.char_at(1)")},
		{"sm.tosym", "String to_symbol / is_empty", "", "sm_e := \"ab\"\n" + o("sm.tosym", "1", "sm_e1", "sm_e.to_symbol") + o("sm.tosym", "2", "sm_e2", "sm_e.is_empty")},
		{"sm.forin", "for-in over String chars", "", "for sm_f in \"hé\"\n  println(\"sm.forin/c \" + sm_f.inspect)\nend\n"},
		{"sm.tostring", "Int/Float to_string", "", "sm_g := 12\nsm_h := 1.5\n" + o("sm.tostring", "1", "sm_g1", "sm_g.to_string") + o("sm.tostring", "2", "sm_h1", "sm_h.to_string")},
		{"sm.escape", "String literal escapes inspect", "", o("sm.escape", "1", "sm_i1", `"a\n\t\"q\" \\ é"`) + o("sm.escape", "2", "sm_i2", `'raw\n'`)},
	}
	g["scalars"] = []raw{
		{"sc.println", "println of scalars without inspect", "", "println(1)\nprintln(2.5)\nprintln(\"s\")\nprintln(:sym)\nprintln(`c`)\nprintln(18446744073709551616)\n"},
		{"sc.printlnexpr", "println of an operator expression argument", "", "sc_a := 4\nprintln(sc_a + 1)\nprintln(sc_a * sc_a - 1)\nprintln(\"v\" + \"w\")\n"},
		{"sc.multi", "println/print with several arguments", "", "println(\"a\", 1, 2.5)\nprint(\"x\")\nprint(\"y\", \"z\")\nprintln()\n"},
		{"sc.inspect", "inspect of scalar literals", "", o("sc.inspect", "1", "sc_b1", "1.5e10") + o("sc.inspect", "2", "sc_b2", ":\"s y\"") + o("sc.inspect", "3", "sc_b3", "`c`") + o("sc.inspect", "4", "sc_b4", "1e+30") + o("sc.inspect", "5", "sc_b5", "0.1 + 0.2") + o("sc.inspect", "6", "sc_b6", "nil")},
		{"sc.strict", "strict integer and float literals", "", o("sc.strict", "1", "sc_c1", "3i8 + 4i8") + o("sc.strict", "2", "sc_c2", "250u8 + 10u8") + o("sc.strict", "3", "sc_c3", "1.5f32 * 2.0f32") + o("sc.strict", "4", "sc_c4", "7u64 / 2u64") + o("sc.strict", "5", "sc_c5", "1.5bf")},
		{"sc.floatfmt", "Float special values", "", o("sc.floatfmt", "1", "sc_d1", "1.0 / 0.0") + o("sc.floatfmt", "2", "sc_d2", "-1.0 / 0.0") + o("sc.floatfmt", "3", "sc_d3", "100.0") + o("sc.floatfmt", "4", "sc_d4", "1e21") + o("sc.floatfmt", "5", "sc_d5", "1.0e-7")},
	}
	return rawBatches("strings", "str", g, order)
}

func closBatches() []batch {
	g := map[string][]raw{}
	order := []string{"basic", "escape"}
	g["basic"] = []raw{
		{"c.call", "closure call .()", "", "c_a := |x: Int|: Int -> x + 1\n" + o("c.call", "1", "c_a1", "c_a.(2)")},
		{"c.callm", "closure call .call", "", "c_b := |x: Int|: Int -> x * 2\n" + o("c.callm", "1", "c_b1", "c_b.call(4)")},
		{"c.noarg", "closure without parameters", "", "c_c := || -> 5\nc_d := -> 6\n" + o("c.noarg", "1", "c_c1", "c_c.()") + o("c.noarg", "2", "c_d1", "c_d.()")},
		{"c.capture", "closure reading a captured local", "", "c_e := 10\nc_f := |x: Int|: Int -> x + c_e\n" + o("c.capture", "1", "c_f1", "c_f.(1)") + "c_e = 20\n" + o("c.capture", "2", "c_f2", "c_f.(1)")},
		{"c.mutate", "closure mutating a captured local", "", "c_g := 0\nc_h := ||: Int -> c_g += 1\nc_h.()\nc_h.()\n" + o("c.mutate", "1", "c_g1", "c_g")},
		{"c.two", "closure with two parameters", "", "c_i := |a: Int, b: Int|: Int -> a * 10 + b\n" + o("c.two", "1", "c_i1", "c_i.(1, 2)")},
		{"c.multiline", "multi-statement closure body", "", "c_j := |a: Int|: Int ->\n  b := a * 2\n  b + 1\nend\n" + o("c.multiline", "1", "c_j1", "c_j.(3)")},
		{"c.lambda", "by-value lambda ~>", "", "c_k := 3\nc_l := ~> c_k + 1\n" + o("c.lambda", "1", "c_l1", "c_l.()")},
	}
	g["escape"] = []raw{
		{"c.counter", "closure returned from a method (captured parameter survives the frame)", "def c_mk(start: Int): ||: Int\n  n := start\n  ||: Int -> n += 1\nend\n", "c_m := c_mk(5)\nc_m.()\n" + o("c.counter", "1", "c_m1", "c_m.()") + "c_n := c_mk(100)\n" + o("c.counter", "2", "c_n1", "c_n.()") + o("c.counter", "3", "c_m2", "c_m.()")},
		{"c.param", "closure passed to a method", "def c_apply(f: |a: Int|: Int, v: Int): Int then f.(v) + f.(v + 1)\n", o("c.param", "1", "c_o1", "c_apply(|a| -> a * a, 3)")},
		{"c.loop", "closures created in a loop capture the loop variable", "", "var c_p: ArrayList[||: Int] = []\nfor c_pi in 1...3\n  c_p << (||: Int -> c_pi * 10)\nend\nfor c_pf in c_p\n  c_pv := c_pf.()\n  println(\"c.loop/v \" + c_pv.inspect)\nend\n"},
		{"c.nested", "closure nested in a closure", "", "c_q := 1\nc_r := |a: Int|: Int ->\n  c_s := |b: Int|: Int -> a + b + c_q\n  c_s.(10)\nend\n" + o("c.nested", "1", "c_r1", "c_r.(100)")},
		{"c.inmethod", "closure capturing a method local and a parameter", "def c_meth(p: Int): Int\n  l := 2\n  f := |x: Int|: Int -> x + p + l\n  l = 3\n  f.(1)\nend\n", o("c.inmethod", "1", "c_t1", "c_meth(10)")},
	}
	return rawBatches("closures", "clos", g, order)
}

func selBatches() []batch {
	g := map[string][]raw{}
	order := []string{"switch", "logic", "catch"}
	calls := func(tag, f string, args ...string) string {
		s := ""
		for i, a := range args {
			s += o(tag, fmt.Sprint(i), fmt.Sprintf("%s_r%d", f, i), fmt.Sprintf("%s(%s)", f, a))
		}
		return s
	}
	g["switch"] = []raw{
		{"sw.int", "switch with Int literal and relational patterns", "def sw_int(v: Int): String\n  switch v\n  case 1 then \"one\"\n  case < 5 then \"few\"\n  case 7 || 8 then \"seven-eight\"\n  else \"many\"\n  end\nend\n", calls("sw.int", "sw_int", "1", "3", "7", "9")},
		{"sw.range", "switch with range patterns", "def sw_rng(v: Int): String\n  switch v\n  case 1...3 then \"low\"\n  case 4..<8 then \"mid\"\n  else \"high\"\n  end\nend\n", calls("sw.range", "sw_rng", "3", "4", "8")},
		{"sw.str", "switch with String patterns", "def sw_str(v: String): Int\n  switch v\n  case \"a\" then 1\n  case \"b\" then 2\n  else 0\n  end\nend\n", calls("sw.str", "sw_str", `"a"`, `"b"`, `"c"`)},
		{"sw.nil", "switch with nil pattern on a nilable", "def sw_nil(v: Int?): String\n  switch v\n  case nil then \"nil\"\n  case 0 then \"zero\"\n  else \"other\"\n  end\nend\n", calls("sw.nil", "sw_nil", "nil", "0", "5")},
		{"sw.list", "switch with list patterns and bindings", "def sw_list(v: ArrayList[Int]): Int\n  switch v\n  case [] then -1\n  case [a] then a\n  case [a, b] then a * 10 + b\n  case [a, *r] then a * 100 + r.length\n  else -2\n  end\nend\n", calls("sw.list", "sw_list", "[1]", "[1, 2]", "[1, 2, 3, 4]")},
		{"sw.type", "switch with type patterns on a union", "def sw_typ(v: Int | String | Float): String\n  switch v\n  case ::Std::Int() then \"int\"\n  case ::Std::String() then \"string\"\n  else \"float\"\n  end\nend\n", calls("sw.type", "sw_typ", "1", `"s"`, "2.5")},
		{"sw.sym", "switch with Symbol patterns", "def sw_sym(v: Symbol): Int\n  switch v\n  case :a then 1\n  case :b then 2\n  else 3\n  end\nend\n", calls("sw.sym", "sw_sym", ":a", ":b", ":c")},
	}
	g["logic"] = []raw{
		{"lg.and", "&& returns the deciding operand", "def lg_and(a: Int?, b: Int?): Int?\n  a && b\nend\n", "lg_a0 := lg_and(1, 2)\nlg_a1 := lg_a0 ?? -1\nprintln(\"lg.and/1 \" + lg_a1.inspect)\nlg_a2 := lg_and(nil, 2)\nlg_a3 := lg_a2 ?? -1\nprintln(\"lg.and/2 \" + lg_a3.inspect)\n"},
		{"lg.or", "|| returns the deciding operand", "def lg_or(a: Int?, b: Int): Int\n  a || b\nend\n", calls("lg.or", "lg_or", "1, 2", "nil, 2")},
		{"lg.nilco", "?? nil coalescing", "def lg_nc(a: Int?, b: Int): Int\n  a ?? b\nend\ndef lg_ncb(a: bool?, b: bool): bool\n  a ?? b\nend\n", calls("lg.nilco", "lg_nc", "1, 2", "nil, 2") + calls("lg.nilco", "lg_ncb", "false, true", "nil, true")},
		{"lg.sidefx", "short-circuit skips the right operand's side effect", "def lg_fx(v: Int): bool\n  println(\"lg.sidefx/called \" + v.inspect)\n  v > 1\nend\n", "lg_s1 := lg_fx(1) && lg_fx(2)\nprintln(\"lg.sidefx/1 \" + lg_s1.inspect)\nlg_s2 := lg_fx(3) || lg_fx(4)\nprintln(\"lg.sidefx/2 \" + lg_s2.inspect)\n"},
		{"lg.modif", "modifier if / unless / if-else", "def lg_mod(v: Int): Int\n  x := 1\n  x = 2 if v > 1\n  x = 3 unless v < 3\n  y := 0\n  y = 10 if v > 1 else y = 20\n  x + y\nend\n", calls("lg.modif", "lg_mod", "0", "2", "5")},
		{"lg.nilsafe", "nil-safe method call ?.", "def lg_ns(v: String?): Int\n  l := v?.length\n  l ?? -1\nend\n", calls("lg.nilsafe", "lg_ns", `"abc"`, "nil")},
		{"lg.truthy", "truthiness of 0, \"\" and nil in conditions", "def lg_tr(v: Int | String | nil): String\n  if v then \"truthy\" else \"falsy\"\nend\n", calls("lg.truthy", "lg_tr", "0", `""`, "nil")},
		{"lg.cmpchain", "comparison results combined with && / ||", "def lg_cc(a: Int, b: Int): bool\n  a < b && b < 10 || a == 99\nend\n", calls("lg.cmpchain", "lg_cc", "1, 2", "1, 20", "99, 0")},
	}
	g["catch"] = []raw{
		{"dc.zerodiv", "do/catch of ZeroDivisionError raised in a method", "def dc_f(a: Int): Int then 10 / a\n", "dc_a := do\n  dc_f(0)\ncatch ::Std::ZeroDivisionError() as e\n  -1\nend\nprintln(\"dc.zerodiv/1 \" + dc_a.inspect)\ndc_b := do\n  dc_f(5)\ncatch ::Std::ZeroDivisionError() as e\n  -1\nend\nprintln(\"dc.zerodiv/2 \" + dc_b.inspect)\n"},
		{"dc.local", "do/catch of an error raised directly in the do body", "", "dc_c := 0\ndc_d := do\n  10 / dc_c\ncatch ::Std::ZeroDivisionError() as e\n  -1\nend\nprintln(\"dc.local/1 \" + dc_d.inspect)\n"},
		{"dc.message", "caught error object message", "", "dc_e := [1]\ndc_ei := 5\ndo\n  dc_ev := dc_e[dc_ei]\n  println(\"dc.message/not \" + dc_ev.inspect)\ncatch ::Std::IndexError() as e\n  println(\"dc.message/1 \" + e.message)\nend\n"},
		{"dc.catchall", "do/catch-all binding", "", "dc_g := 0\ndo\n  dc_gv := 1 % dc_g\n  println(\"dc.catchall/not \" + dc_gv.inspect)\ncatch e\n  println(\"dc.catchall/1 caught\")\nend\n"},
		{"dc.finally", "do/finally ordering in a method", "def dc_fin: Int\n  do\n    println(\"dc.finally/body 0\")\n    1\n  finally\n    println(\"dc.finally/fin 0\")\n  end\nend\n", o("dc.finally", "ret", "dc_h1", "dc_fin()")},
		{"dc.catchfinally", "do/catch/finally ordering with an error", "def dc_cf(a: Int): Int\n  do\n    println(\"dc.catchfinally/body 0\")\n    10 / a\n  catch ::Std::ZeroDivisionError() as e\n    println(\"dc.catchfinally/catch 0\")\n    -1\n  finally\n    println(\"dc.catchfinally/fin 0\")\n  end\nend\n", calls("dc.catchfinally", "dc_cf", "0", "2")},
		{"dc.nested", "nested do/catch: inner does not match, outer does", "", "dc_i := 0\ndo\n  do\n    dc_iv := 1 / dc_i\n    println(\"dc.nested/not \" + dc_iv.inspect)\n  catch ::Std::IndexError() as e\n    println(\"dc.nested/inner 0\")\n  end\ncatch ::Std::ZeroDivisionError() as e\n  println(\"dc.nested/outer 0\")\nend\n"},
		{"dc.must", "must / try on non-nil values", "def dc_m(a: Int?): Int then (must a) + 1\n", calls("dc.must", "dc_m", "4")},
		{"dc.as", "as-cast that succeeds", "def dc_as(a: Int | String): Int then (a as ::Std::Int) + 1\n", calls("dc.as", "dc_as", "4")},
	}
	return rawBatches("select", "sel", g, order)
}

// ------------------------------------------------------------------ uncaught errors

type errKind struct {
	name string
	// expr over parameters/locals a (Int or collection) that raises; setup declares the operands for depth 0
	ptype, arg string // parameter type and the argument that triggers the error
	expr       string // expression using `a`
	rtype      string
}

var errKinds = []errKind{
	{"zerodiv", "Int", "0", "10 / a", "Int"},
	{"zeromod", "Int", "0", "10 % a", "Int"},
	{"listindex", "Int", "7", "[1, 2, 3][a]", "Int"},
	{"tupleindex", "Int", "7", "%[1, 2, 3][a]", "Int"},
	{"mustnil", "Int?", "nil", "(must a) + 1", "Int"},
	{"ascast", "Int | String", `"s"`, "(a as ::Std::Int) + 1", "Int"},
	{"throwsym", "Int", "0", "throw unchecked :boom", "Int"},
	{"throwerr", "Int", "0", `throw unchecked ::Std::Error("custom message")`, "Int"},
}

var errSites = []string{"assign", "arg", "stmt"}

func errProgram(k errKind, depth int, site string) string {
	var s strings.Builder
	expr := k.expr
	switch depth {
	case 0:
		fmt.Fprintf(&s, "var a: %s = %s\n", k.ptype, k.arg)
	case 1:
		fmt.Fprintf(&s, "def f(a: %s): %s\n  println(\"in f\")\n  %s\nend\n", k.ptype, k.rtype, k.expr)
		expr = "f(" + k.arg + ")"
	case 2:
		fmt.Fprintf(&s, "def f(a: %s): %s\n  println(\"in f\")\n  %s\nend\n", k.ptype, k.rtype, k.expr)
		fmt.Fprintf(&s, "def g(a: %s): %s\n  println(\"in g\")\n  r := f(a)\n  r + 1\nend\n", k.ptype, k.rtype)
		expr = "g(" + k.arg + ")"
	}
	s.WriteString("println(\"start\")\n")
	s.WriteString("before := 1\n")
	switch site {
	case "assign":
		fmt.Fprintf(&s, "x := %s\nprintln(x)\n", expr)
	case "arg":
		fmt.Fprintf(&s, "println(%s)\n", expr)
	case "stmt":
		fmt.Fprintf(&s, "%s\n", expr)
	}
	s.WriteString("println(\"not reached\")\n")
	return s.String()
}

func errBatches(thorough bool) []batch {
	var out []batch
	for _, k := range errKinds {
		for depth := 0; depth <= 2; depth++ {
			for _, site := range errSites {
				if !thorough && site != "assign" && !(k.name == "zerodiv") {
					continue
				}
				if strings.HasPrefix(k.name, "throw") && site != "stmt" && depth == 0 {
					continue // `x := throw …` is not meaningful
				}
				src := errProgram(k, depth, site)
				tag := fmt.Sprintf("err.%s.d%d.%s", k.name, depth, site)
				out = append(out, batch{ID: "err/" + k.name + fmt.Sprintf("/d%d/%s", depth, site), Family: "uncaught-" + k.name, Err: true,
					Items: []item{{Tag: tag, Sig: fmt.Sprintf("uncaught %s depth=%d site=%s", k.name, depth, site), Code: src}}})
			}
		}
	}
	// frames of other kinds of callables
	extra := []raw{
		{"err.frames.classmethod", "uncaught error inside a class instance method", "", "class Acc\n  getter n: Int\n  init(@n: Int); end\n  def div(by: Int): Int\n    @n / by\n  end\nend\nacc := Acc(10)\nprintln(\"start\")\nr := acc.div(0)\nprintln(r)\n"},
		{"err.frames.modulemethod", "uncaught error inside a module method", "", "module Mo\n  def div(a: Int, by: Int): Int\n    a / by\n  end\nend\nprintln(\"start\")\nr := Mo.div(1, 0)\nprintln(r)\n"},
		{"err.frames.closure", "uncaught error inside a closure called from the top level", "", "z := 0\nf := |a: Int|: Int -> a / z\nprintln(\"start\")\nr := f.(5)\nprintln(r)\n"},
		{"err.frames.loop", "uncaught error in the third iteration of a loop in a method", "", "def walk(l: ArrayList[Int]): Int\n  s := 0\n  for e in l\n    println(e)\n    s += 100 / e\n  end\n  s\nend\nprintln(\"start\")\nr := walk([5, 2, 0, 1])\nprintln(r)\n"},
		{"err.frames.recursion", "uncaught error at recursion depth 5", "", "def down(n: Int): Int\n  return 1 / n if n == 0\n  down(n - 1) + 1\nend\nprintln(\"start\")\nr := down(5)\nprintln(r)\n"},
		{"err.frames.afterfinally", "uncaught error passing through a finally block", "", "def risky(a: Int): Int\n  do\n    10 / a\n  finally\n    println(\"cleanup\")\n  end\nend\nprintln(\"start\")\nr := risky(0)\nprintln(r)\n"},
		{"err.frames.rethrown", "uncaught error not matched by a catch clause", "", "def pick(l: ArrayList[Int], i: Int): Int\n  do\n    l[i]\n  catch ::Std::ZeroDivisionError() as e\n    -1\n  end\nend\nprintln(\"start\")\nr := pick([1], 3)\nprintln(r)\n"},
		{"err.frames.multiline", "uncaught error on the third line of a multi-line top-level expression", "", "println(\"start\")\nz := 0\nr := [\n  1,\n  2 / z,\n  3\n]\nprintln(r.inspect)\n"},
	}
	for _, e := range extra {
		out = append(out, batch{ID: strings.ReplaceAll(e.tag, ".", "/"), Family: "uncaught-frames", Err: true, Items: []item{{Tag: e.tag, Sig: e.sig, Code: e.code}}})
	}
	return out
}

// ------------------------------------------------------------------ the space

func space(thorough bool) []batch {
	var bs []batch
	bs = append(bs, opBatches(thorough)...)
	bs = append(bs, cfBatches(thorough)...)
	bs = append(bs, methBatches()...)
	bs = append(bs, collBatches()...)
	bs = append(bs, strBatches()...)
	bs = append(bs, closBatches()...)
	bs = append(bs, selBatches()...)
	bs = append(bs, errBatches(thorough)...)
	bs = append(bs, exprBatches(thorough)...)
	return bs
}

func run(c *engine.Ctx) {
	for _, b := range space(c.Thorough) {
		b := b
		c.Case(b.ID, func(r *engine.R) { runBatch(c, r, b) })
	}
}

// vmOnly: development aid — C09_VMONLY=quick|thorough lists what the VM and the backend do with every program,
// without building anything.
func vmOnly(tier string) {
	type pr struct {
		b  batch
		it item
	}
	var ps []pr
	var srcs []string
	for _, b := range space(tier == "thorough") {
		for _, it := range b.Items {
			ps = append(ps, pr{b, it})
			srcs = append(srcs, progSrc(b, it))
		}
	}
	fs := fronts(srcs)
	bad := 0
	hist := map[string]int{}
	for i, p := range ps {
		v := fs[i].VM
		switch {
		case v.Rejected:
			bad++
			fmt.Printf("REJECTED %s %s\n%s\n%s\n", p.b.ID, p.it.Tag, firstLines(v.Diags, 6), srcs[i])
		case v.Panic != "":
			bad++
			fmt.Printf("VMPANIC %s %s %s\n%s\n", p.b.ID, p.it.Tag, v.PanicSig, srcs[i])
		case v.Failed && !p.b.Err:
			bad++
			fmt.Printf("FAILED %s %s %s\n%s\n", p.b.ID, p.it.Tag, v.Rep.Head, srcs[i])
		case !v.Failed && p.b.Err:
			bad++
			fmt.Printf("NOERROR %s %s\n%s\n", p.b.ID, p.it.Tag, srcs[i])
		}
		hist[fs[i].Status+" "+firstLines(fs[i].Detail, 1)]++
		if fs[i].Status != "ok" {
			fmt.Printf("BACKEND %s %s: %s %s\n", p.b.ID, p.it.Tag, fs[i].Status, firstLines(fs[i].Detail, 1))
		}
		if os.Getenv("C09_DUMP") != "" {
			fmt.Printf("=== %s %s\n%s--- out:\n%s%s\n", p.b.ID, p.it.Tag, srcs[i], v.Stdout, v.Rep.Raw)
		}
	}
	for k, n := range hist {
		fmt.Printf("%5d %s\n", n, k)
	}
	fmt.Printf("%d batches, %d programs, %d bad on the VM side\n", len(space(tier == "thorough")), len(ps), bad)
}
