package main

// (expr) bounded-exhaustive family of Int expression trees.
//
// Every binary tree with n operators (all Catalan shapes), every assignment of operators to the inner nodes and every
// assignment of leaf kinds to the leaves is one expression; the leaf kinds cover the operand classes of the
// translator (narrow SmallInt constant / narrow SmallInt local / BigInt constant / wide value.Value local / wide
// parameter / temporary holding a call result / temporary holding a quotient). Native builds are the cost, so the
// expressions are packed: a program holds some hundred to some thousand expressions, `v := <expr>` each and a
// `println("#k", v…)` per etPrint of them (every value on its own line, under the index of the first), in groups of
// etGroup expressions per method.
// Expressions are dealt round-robin over the programs, so that every program holds a similar mix of shapes.
//
// Oracle: line by line. When the outputs of a program differ, the differing expressions are localised (see
// etLocalise) so that the violation signature names a shape — operator, operand classes, position in the enclosing
// operator — instead of one signature per expression.

import (
	"fmt"
	"math/big"
	"os"
	"sort"
	"strings"

	"verifharness/engine"
)

// ------------------------------------------------------------------ trees

type etKind int

const (
	kLit  etKind = iota // Int literal (SmallInt constant)
	kBig                // Int literal beyond 64 bits (BigInt constant)
	kLoc                // local variable `x := 9`
	kPar                // method parameter `p: Int`
	kIt                 // loop variable of `for i in 6` (SmallInt local)
	kCall               // result of an Int-returning call
	kTmp                // result of `/` or `%` of a local and a literal (a temporary)
	kEdge               // Int literal 2**63-1: the largest SmallInt (arithmetic on it overflows into BigInt)
)

var etKindName = map[etKind]string{kLit: "literal", kBig: "bigliteral", kLoc: "local", kPar: "param", kIt: "loopvar", kCall: "call", kTmp: "temp", kEdge: "maxliteral"}

// operand classes of the translator: what Go representation the operand has where the operator is compiled
func etLeafClass(k etKind) string {
	switch k {
	case kLit, kIt:
		return "narrow(literal|loopvar)"
	case kEdge:
		return "narrow-max(literal-2**63-1)"
	case kBig:
		return "big(literal)"
	case kLoc, kPar:
		return "wide(local|param)"
	}
	return "temp(call|/|%)"
}

type etNode struct {
	op   string // "" = leaf
	l, r *etNode
	kind etKind
	pos  int // leaves: index in left-to-right order (selects the concrete literal / variable)
}

func (n *etNode) ops() int {
	if n.op == "" {
		return 0
	}
	return 1 + n.l.ops() + n.r.ops()
}

// class of a subtree seen as an operand
func (n *etNode) class() string {
	switch n.op {
	case "":
		return etLeafClass(n.kind)
	}
	if n.allLiteral() {
		// literal operands only: the operator is folded at compile time, the translator sees a literal
		if v, ok := n.eval(); ok && v.IsInt64() {
			return etLeafClass(kLit)
		}
		return etLeafClass(kBig)
	}
	switch n.op {
	case "/", "%":
		return "temp(call|/|%)"
	}
	if n.hasTemp() {
		return "inline-expr-over-temp"
	}
	return "inline-expr"
}

func (n *etNode) allLiteral() bool {
	if n.op == "" {
		return n.kind == kLit || n.kind == kBig || n.kind == kEdge
	}
	return n.l.allLiteral() && n.r.allLiteral()
}

func (n *etNode) hasTemp() bool {
	switch n.op {
	case "":
		return n.kind == kCall || n.kind == kTmp
	}
	if n.allLiteral() {
		return false
	}
	if n.op == "/" || n.op == "%" {
		return true
	}
	return n.l.hasTemp() || n.r.hasTemp()
}

// shape: the tree with leaf kinds in place of leaves
func (n *etNode) shape() string {
	if n.op == "" {
		return etKindName[n.kind]
	}
	return "(" + n.l.shape() + " " + n.op + " " + n.r.shape() + ")"
}

// leaf tables: the value of a leaf depends on its kind and position only
var etLitVals = []string{"100", "7", "50", "3", "61", "11", "29", "5"}
var etBigVals = []string{"1180591620717411303424", "2361183241434822606859", "1180591620717411303431", "590295810358705651741", "1180591620717411303424", "2361183241434822606859", "1180591620717411303431", "590295810358705651741"}
var etLocVals = []int64{9, 17, 4, 23, 38, 6, 13, 90}
var etParVals = []int64{20, 3, 14, 8, 45, 2, 31, 12}
var etTmpVals = []int64{19, 27, 33, 41, 58, 75, 87, 99} // y0..y7
var etTmpOps = []string{"/ 2", "% 10", "/ 3", "% 9", "/ 4", "% 13", "/ 5", "% 16"}
var etCallArgs = [][2]int64{{30, 2}, {18, 3}, {104, 4}, {10, 1}, {85, 5}, {24, 6}, {91, 7}, {64, 8}} // et_d(a, b) = a / b
const etLoopVal = 5                                                                                  // `for i in 6` … `if i > 4`
const etEdgeVal = "9223372036854775807"

const etLeafSlots = 8

func (n *etNode) render(b *strings.Builder, pureCall bool) {
	if n.op != "" {
		if n.l.op != "" {
			b.WriteByte('(')
			n.l.render(b, pureCall)
			b.WriteByte(')')
		} else {
			n.l.render(b, pureCall)
		}
		b.WriteString(" " + n.op + " ")
		if n.r.op != "" {
			b.WriteByte('(')
			n.r.render(b, pureCall)
			b.WriteByte(')')
		} else {
			n.r.render(b, pureCall)
		}
		return
	}
	p := n.pos % etLeafSlots
	switch n.kind {
	case kLit:
		b.WriteString(etLitVals[p])
	case kBig:
		b.WriteString(etBigVals[p])
	case kEdge:
		b.WriteString(etEdgeVal)
	case kLoc:
		fmt.Fprintf(b, "x%d", p)
	case kPar:
		fmt.Fprintf(b, "p%d", p)
	case kIt:
		b.WriteString("i")
	case kCall:
		a := etCallArgs[p]
		if pureCall {
			fmt.Fprintf(b, "et_c(%d)", a[0]/a[1])
		} else {
			fmt.Fprintf(b, "et_d(%d, %d)", a[0], a[1])
		}
	case kTmp:
		fmt.Fprintf(b, "(y%d %s)", p, etTmpOps[p])
	}
}

func bigOf(s string) *big.Int {
	v, ok := new(big.Int).SetString(s, 10)
	if !ok {
		panic("internal: bad integer " + s)
	}
	return v
}

// eval: the value of the tree under Elk's Int semantics (unbounded integers, truncating `/` and `%`); ok=false when a
// divisor is zero. Used only to keep raising expressions out of the packed programs — the oracle is the VM.
func (n *etNode) eval() (v *big.Int, ok bool) {
	if n.op == "" {
		p := n.pos % etLeafSlots
		switch n.kind {
		case kLit:
			return bigOf(etLitVals[p]), true
		case kBig:
			return bigOf(etBigVals[p]), true
		case kEdge:
			return bigOf(etEdgeVal), true
		case kLoc:
			return big.NewInt(etLocVals[p]), true
		case kPar:
			return big.NewInt(etParVals[p]), true
		case kIt:
			return big.NewInt(etLoopVal), true
		case kCall:
			return big.NewInt(etCallArgs[p][0] / etCallArgs[p][1]), true
		case kTmp:
			var a, m int64
			var o string
			fmt.Sscanf(etTmpOps[p], "%s %d", &o, &m)
			a = etTmpVals[p]
			if o == "/" {
				return big.NewInt(a / m), true
			}
			return big.NewInt(a % m), true
		}
		panic("internal: leaf kind")
	}
	a, ok1 := n.l.eval()
	b, ok2 := n.r.eval()
	if !ok1 || !ok2 {
		return nil, false
	}
	z := new(big.Int)
	switch n.op {
	case "+":
		return z.Add(a, b), true
	case "-":
		return z.Sub(a, b), true
	case "*":
		return z.Mul(a, b), true
	case "/":
		if b.Sign() == 0 {
			return nil, false
		}
		return z.Quo(a, b), true
	case "%":
		if b.Sign() == 0 {
			return nil, false
		}
		return z.Rem(a, b), true
	case "&":
		return z.And(a, b), true
	case "|":
		return z.Or(a, b), true
	case "^":
		return z.Xor(a, b), true
	case "<", "<=", ">", ">=", "==", "!=":
		return big.NewInt(0), true // a bool: never an operand
	}
	panic("internal: operator " + n.op)
}

// etShapes: all binary tree shapes with n inner nodes; leaves are numbered left to right afterwards.
func etShapes(n int) []*etNode {
	if n == 0 {
		return []*etNode{{}}
	}
	var out []*etNode
	for k := n - 1; k >= 0; k-- { // left-heavy shapes first
		for _, l := range etShapes(k) {
			for _, r := range etShapes(n - 1 - k) {
				out = append(out, &etNode{op: "?", l: l, r: r})
			}
		}
	}
	return out
}

func (n *etNode) clone() *etNode {
	if n == nil {
		return nil
	}
	c := *n
	c.l, c.r = n.l.clone(), n.r.clone()
	return &c
}

func (n *etNode) inner(out *[]*etNode) {
	if n.op == "" {
		return
	}
	*out = append(*out, n)
	n.l.inner(out)
	n.r.inner(out)
}

func (n *etNode) leaves(out *[]*etNode) {
	if n.op == "" {
		*out = append(*out, n)
		return
	}
	n.l.leaves(out)
	n.r.leaves(out)
}

// spine / full: which shapes of 3 operators the quick tier keeps
func etIsLeftSpine(n *etNode) bool  { return n.op == "" || (n.r.op == "" && etIsLeftSpine(n.l)) }
func etIsRightSpine(n *etNode) bool { return n.op == "" || (n.l.op == "" && etIsRightSpine(n.r)) }

// etEnumerate: every tree of the given shapes × ops^inner × kinds^leaves, in a fixed order. rootOps, when set,
// replaces ops at the root (comparison operators yield a bool and can only stand there).
func etEnumerate(shapes []*etNode, ops, rootOps []string, kinds []etKind, emit func(*etNode)) {
	for _, sh := range shapes {
		t := sh.clone()
		var in, lv []*etNode
		t.inner(&in)
		t.leaves(&lv)
		for i, l := range lv {
			l.pos = i
		}
		var recOps func(i int)
		var recLeaves func(i int)
		recLeaves = func(i int) {
			if i == len(lv) {
				emit(t.clone())
				return
			}
			for _, k := range kinds {
				lv[i].kind = k
				recLeaves(i + 1)
			}
		}
		recOps = func(i int) {
			if i == len(in) {
				recLeaves(0)
				return
			}
			o := ops
			if i == 0 && rootOps != nil {
				o = rootOps
			}
			for _, op := range o {
				in[i].op = op
				recOps(i + 1)
			}
		}
		recOps(0)
	}
}

// ------------------------------------------------------------------ the family

type etExpr struct {
	idx  int // index printed by the program
	tree *etNode
	src  string
}

type etProgram struct {
	ctx      string // "meth": expressions in method bodies; "top": at the top level of the program
	exprs    []*etExpr
	src      string
	excluded int // (first program of a context only) trees of the context left out because a divisor is zero
}

var arithOps = []string{"+", "-", "*", "/", "%"}
var bitOps = []string{"&", "|", "^"}
var cmpOps = []string{"<", "<=", ">", ">=", "==", "!="}

const etGroup = 64 // expressions per method (a multiple of etPrint)
const etPrint = 8  // expressions per println

type etPlan struct {
	ctx     string
	perProg int // target number of expressions per program (the number of programs is a multiple of 16)
	parts   []etPart
}

type etPart struct {
	nOps    int
	shapes  string // of n = 3: all | full+spines | full | spines
	ops     []string
	rootOps []string
	kinds   []etKind
}

func etPlans(thorough bool) []etPlan {
	methAll := []etKind{kLit, kBig, kLoc, kPar, kIt, kCall, kTmp}
	topAll := []etKind{kLit, kBig, kLoc, kIt, kCall, kTmp}
	rep3 := []etKind{kLit, kLoc, kTmp}      // one kind per class narrow / wide / temp
	rep4 := []etKind{kLit, kLoc, kIt, kTmp} // … and the narrow local
	if !thorough {
		return []etPlan{
			{ctx: "meth", perProg: 2200, parts: []etPart{
				{nOps: 1, shapes: "all", ops: arithOps, kinds: methAll},
				{nOps: 2, shapes: "all", ops: arithOps, kinds: methAll},
				{nOps: 3, shapes: "full", ops: arithOps, kinds: rep3},
				{nOps: 3, shapes: "spines", ops: arithOps, kinds: []etKind{kLit, kTmp}},
				{nOps: 3, shapes: "spines", ops: arithOps, kinds: []etKind{kLoc, kTmp}},
			}},
			// the top level of a program is one Go function: small programs
			{ctx: "top", perProg: 240, parts: []etPart{
				{nOps: 1, shapes: "all", ops: arithOps, kinds: topAll},
				{nOps: 2, shapes: "all", ops: arithOps, kinds: rep4},
				{nOps: 2, shapes: "all", ops: arithOps, kinds: []etKind{kLit, kCall}},
			}},
		}
	}
	allOps := append(append([]string{}, arithOps...), bitOps...)
	withEdge := func(k []etKind) []etKind { return append(append([]etKind{}, k...), kEdge) }
	mixed := []etKind{kLit, kBig, kLoc, kTmp}
	return []etPlan{
		{ctx: "meth", perProg: 3300, parts: []etPart{
			{nOps: 1, shapes: "all", ops: allOps, kinds: withEdge(methAll)},
			{nOps: 1, shapes: "all", ops: cmpOps, kinds: withEdge(methAll)},
			{nOps: 2, shapes: "all", ops: arithOps, kinds: withEdge(methAll)},
			{nOps: 2, shapes: "all", ops: allOps, kinds: mixed},
			{nOps: 2, shapes: "all", ops: arithOps, rootOps: cmpOps, kinds: mixed},
			{nOps: 3, shapes: "all", ops: arithOps, kinds: rep3},
			{nOps: 3, shapes: "full+spines", ops: arithOps, kinds: rep4},
		}},
		{ctx: "top", perProg: 240, parts: []etPart{
			{nOps: 1, shapes: "all", ops: allOps, kinds: withEdge(topAll)},
			{nOps: 2, shapes: "all", ops: arithOps, kinds: topAll},
		}},
	}
}

var etExcluded map[string]int // per ctx: trees left out because a divisor is zero

func etBuild(thorough bool) []*etProgram {
	etExcluded = map[string]int{}
	var out []*etProgram
	for _, pl := range etPlans(thorough) {
		var all []*etExpr
		seen := map[string]bool{}
		for _, pt := range pl.parts {
			var shapes []*etNode
			for _, sh := range etShapes(pt.nOps) {
				spine := etIsLeftSpine(sh) || etIsRightSpine(sh)
				full := sh.l.op != "" && sh.r.op != ""
				if pt.shapes == "all" || pt.nOps < 3 || (spine && pt.shapes != "full") || (full && pt.shapes != "spines") {
					shapes = append(shapes, sh)
				}
			}
			etEnumerate(shapes, pt.ops, pt.rootOps, pt.kinds, func(t *etNode) {
				var sb strings.Builder
				t.render(&sb, pl.ctx == "top")
				src := sb.String()
				if seen[src] { // parts may overlap
					return
				}
				seen[src] = true
				if _, ok := t.eval(); !ok {
					etExcluded[pl.ctx]++
					return
				}
				all = append(all, &etExpr{tree: t, src: src})
			})
		}
		n := (len(all) + pl.perProg - 1) / pl.perProg
		n = (n + 15) / 16 * 16
		progs := make([]*etProgram, n)
		for i := range progs {
			progs[i] = &etProgram{ctx: pl.ctx}
		}
		for i, e := range all { // round-robin: every program gets a similar mix of shapes
			p := progs[i%n]
			e.idx = len(p.exprs)
			p.exprs = append(p.exprs, e)
		}
		for _, p := range progs {
			p.src = etSource(p)
		}
		progs[0].excluded = etExcluded[pl.ctx]
		out = append(out, progs...)
	}
	return out
}

func etIsCmp(op string) bool {
	switch op {
	case "<", "<=", ">", ">=", "==", "!=":
		return true
	}
	return false
}

func etLocals(b *strings.Builder, pad string) {
	for i := 0; i < etLeafSlots; i++ {
		fmt.Fprintf(b, "%sx%d := %d\n", pad, i, etLocVals[i])
	}
	for i := 0; i < etLeafSlots; i++ {
		fmt.Fprintf(b, "%sy%d := %d\n", pad, i, etTmpVals[i])
	}
}

// etStmts: the statements of consecutive expressions: `v := <expr>` each, and one println per etPrint of them, which
// prints "#<index of the first>" and then every value on its own line (a println per expression costs about half of
// the generated Go and of its compile time).
func etStmts(b *strings.Builder, pad string, es []*etExpr) {
	for s := 0; s < len(es); s += etPrint {
		e := s + etPrint
		if e > len(es) {
			e = len(es)
		}
		args := []string{fmt.Sprintf("\"#%d\"", es[s].idx)}
		for _, x := range es[s:e] {
			fmt.Fprintf(b, "%sv%d := %s\n", pad, x.idx, x.src)
			if etIsCmp(x.tree.op) {
				args = append(args, fmt.Sprintf("v%d.inspect", x.idx))
			} else {
				args = append(args, fmt.Sprintf("v%d", x.idx))
			}
		}
		fmt.Fprintf(b, "%sprintln(%s)\n", pad, strings.Join(args, ", "))
	}
}

// etSource: the Elk program of p.
func etSource(p *etProgram) string {
	var b strings.Builder
	if p.ctx == "top" {
		// a pure callee: the top level may call it (a call from a method body to a method that cannot raise panics the
		// backend: counted by the `meth` family)
		b.WriteString("def et_c(a: Int): Int then a\n")
		etLocals(&b, "")
		b.WriteString("for i in 6\n  if i > 4\n")
		etStmts(&b, "    ", p.exprs)
		b.WriteString("  end\nend\n")
		return b.String()
	}
	b.WriteString("def et_d(a: Int, b: Int): Int then a / b\n")
	var params, args []string
	for i := 0; i < etLeafSlots; i++ {
		params = append(params, fmt.Sprintf("p%d: Int", i))
		args = append(args, fmt.Sprint(etParVals[i]))
	}
	groups := 0
	for s := 0; s < len(p.exprs); s += etGroup {
		e := s + etGroup
		if e > len(p.exprs) {
			e = len(p.exprs)
		}
		fmt.Fprintf(&b, "def et_m%d(%s): Int\n", groups, strings.Join(params, ", "))
		etLocals(&b, "  ")
		b.WriteString("  for i in 6\n    if i > 4\n")
		etStmts(&b, "      ", p.exprs[s:e])
		b.WriteString("    end\n  end\n  0\nend\n")
		groups++
	}
	for g := 0; g < groups; g++ {
		fmt.Fprintf(&b, "r%d := et_m%d(%s)\n", g, g, strings.Join(args, ", "))
	}
	return b.String()
}

func exprBatches(thorough bool) []batch {
	var out []batch
	cnt := map[string]int{}
	for _, p := range etBuild(thorough) {
		id := fmt.Sprintf("expr/%s/%02d", p.ctx, cnt[p.ctx])
		cnt[p.ctx]++
		tag := strings.ReplaceAll(id, "/", ".")
		out = append(out, batch{ID: id, Family: "expr-tree", Expr: p,
			Items: []item{{Tag: tag, Sig: "expr-tree program ctx=" + p.ctx, Code: p.src}}})
	}
	return out
}

// ------------------------------------------------------------------ oracle

// etParse: the lines of a packed program's stdout as expression index → printed value: a line "#k" starts the values
// of expressions k, k+1, … (at most etPrint of them). ok=false when the output does not have that form.
func etParse(out string, n int) (vals map[int]string, ok bool) {
	vals = map[int]string{}
	if out == "" {
		return vals, true
	}
	next, room := -1, 0
	for _, line := range strings.Split(strings.TrimSuffix(out, "\n"), "\n") {
		if strings.HasPrefix(line, "#") {
			var k int
			if _, err := fmt.Sscanf(line, "#%d", &k); err != nil || fmt.Sprintf("#%d", k) != line || k%etPrint != 0 || k >= n {
				return vals, false
			}
			if _, dup := vals[k]; dup {
				return vals, false
			}
			next, room = k, etPrint
			continue
		}
		if room == 0 || next >= n {
			return vals, false
		}
		vals[next] = line
		next++
		room--
	}
	return vals, true
}

// feature: a description of one inner node of a tree at one of several granularities: (0) the node — operator and
// operand classes; (1) the node and what is evaluated around it — whether an operand that needs a temporary is
// evaluated later / was evaluated earlier in the enclosing expression — or the node, its position and the class of
// its sibling; (2) node, position and parent operator; (3) node, position, parent operator and sibling class.
type etFeature struct {
	level int
	text  string
}

func etFeatures(t *etNode) []etFeature {
	var fs []etFeature
	var walk func(n, parent *etNode, pos string, earlier, later bool)
	walk = func(n, parent *etNode, pos string, earlier, later bool) {
		if n.op == "" {
			return
		}
		node := fmt.Sprintf("op=%s left=%s right=%s", n.op, n.l.class(), n.r.class())
		fs = append(fs, etFeature{0, node})
		if later {
			fs = append(fs, etFeature{1, node + " followed-by=operand-needing-a-temp"})
		}
		if earlier {
			fs = append(fs, etFeature{1, node + " preceded-by=operand-needing-a-temp"})
		}
		if parent != nil {
			sib := parent.r
			if pos == "right" {
				sib = parent.l
			}
			fs = append(fs,
				etFeature{1, fmt.Sprintf("%s position=%s-operand sibling=%s", node, pos, sib.class())},
				etFeature{2, fmt.Sprintf("%s position=%s-operand parent=%s", node, pos, parent.op)},
				etFeature{3, fmt.Sprintf("%s position=%s-operand parent=%s sibling=%s", node, pos, parent.op, sib.class())})
		}
		walk(n.l, n, "left", earlier, later || n.r.hasTemp())
		walk(n.r, n, "right", earlier || n.l.hasTemp(), later)
	}
	walk(t, nil, "", false, false)
	return fs
}

type etDiff struct {
	e        *etExpr
	vm, nat  string
	features []etFeature
}

type etFinding struct {
	nd, ne  int
	sig     string
	covered []*etDiff
	example *etDiff
	unlocal bool
}

func etLess(a, b *etDiff) bool {
	if x, y := a.e.tree.ops(), b.e.tree.ops(); x != y {
		return x < y
	}
	if x, y := a.e.tree.shape(), b.e.tree.shape(); x != y {
		return x < y
	}
	return a.e.idx < b.e.idx
}

// etLocalise groups the differing expressions of one program by what they have in common. The *precision* of a
// feature is the share of differing expressions among the expressions of the program that carry it (a wrong
// intermediate value can coincide with the right one, so a precision of 1 is not required). Greedy cover: among the
// features of precision ≥ etMinPrecision, the one carried by most of the not yet explained differing expressions
// (ties: the coarser, the more precise, the alphabetically first) becomes a finding and explains them; at most
// etMaxFindings times; a feature needs at least etMinSupport differing expressions. Differing expressions that carry no such feature are reported once, by the class shape of the
// smallest of them.
const etMaxFindings = 4
const etMinPrecision = 0.7
const etMinSupport = 2 // a pattern carried by a single differing expression explains nothing

func etLocalise(diffs []*etDiff, equal []*etExpr) []etFinding {
	ne := map[string]int{}
	for _, e := range equal {
		seen := map[string]bool{}
		for _, f := range etFeatures(e.tree) {
			if !seen[f.text] {
				seen[f.text] = true
				ne[f.text]++
			}
		}
	}
	nd := map[string]int{}
	level := map[string]int{}
	for _, d := range diffs {
		d.features = d.features[:0]
		seen := map[string]bool{}
		for _, f := range etFeatures(d.e.tree) {
			if !seen[f.text] {
				seen[f.text] = true
				d.features = append(d.features, f)
				nd[f.text]++
				level[f.text] = f.level
			}
		}
	}
	prec := func(f string) float64 { return float64(nd[f]) / float64(nd[f]+ne[f]) }
	if os.Getenv("C09_EXPRDEBUG") != "" {
		var fs []string
		for f := range nd {
			fs = append(fs, f)
		}
		sort.Slice(fs, func(i, j int) bool { return nd[fs[i]] > nd[fs[j]] || (nd[fs[i]] == nd[fs[j]] && fs[i] < fs[j]) })
		for _, f := range fs {
			fmt.Printf("feature nd=%d ne=%d prec=%.2f L%d %s\n", nd[f], ne[f], prec(f), level[f], f)
		}
	}
	left := append([]*etDiff{}, diffs...)
	var out []etFinding
	for len(left) > 0 && len(out) < etMaxFindings {
		count := map[string]int{}
		for _, d := range left {
			for _, f := range d.features {
				if prec(f.text) >= etMinPrecision && nd[f.text] >= etMinSupport {
					count[f.text]++
				}
			}
		}
		best := ""
		for f, n := range count {
			switch {
			case best == "":
				best = f
			case n != count[best]:
				if n > count[best] {
					best = f
				}
			case level[f] != level[best]:
				if level[f] < level[best] {
					best = f
				}
			case prec(f) != prec(best):
				if prec(f) > prec(best) {
					best = f
				}
			case f < best:
				best = f
			}
		}
		if best == "" {
			break
		}
		fd := etFinding{sig: etSigPrefix + best, nd: nd[best], ne: ne[best]}
		var rest []*etDiff
		for _, d := range left {
			has := false
			for _, f := range d.features {
				if f.text == best {
					has = true
				}
			}
			if has {
				fd.covered = append(fd.covered, d)
				if fd.example == nil || etLess(d, fd.example) {
					fd.example = d
				}
			} else {
				rest = append(rest, d)
			}
		}
		out = append(out, fd)
		left = rest
	}
	if len(left) > 0 {
		fd := etFinding{unlocal: true, covered: left}
		for _, d := range left {
			if fd.example == nil || etLess(d, fd.example) {
				fd.example = d
			}
		}
		fd.sig = etUnlocalPrefix + fd.example.e.tree.classShape()
		out = append(out, fd)
	}
	return out
}

const etSigPrefix = "expr-tree native differs: "
const etUnlocalPrefix = "expr-tree native differs (no single operator/operand-class pattern explains it), smallest tree: "

// classShape: the tree with operand classes in place of leaves.
func (n *etNode) classShape() string {
	if n.op == "" {
		return etLeafClass(n.kind)
	}
	if n.allLiteral() {
		return n.class()
	}
	return "(" + n.l.classShape() + " " + n.op + " " + n.r.classShape() + ")"
}

// checkExprProgram: the oracle of one packed program. Everything that is not "both sides ran" goes through the
// generic program oracle (checkItem), and is marked as lost coverage.
func checkExprProgram(r *engine.R, rc *rec, p *etProgram) {
	vmr, nat := rc.f.VM, rc.nat
	r.Count("expr_trees_in_programs", len(p.exprs))
	if p.excluded > 0 {
		r.Count("expr_trees_left_out(zero divisor)", p.excluded)
	}
	generic := func(why string) {
		checkItem(r, rc)
		r.Capped(fmt.Sprintf("packed expression program %s (%d expressions) not compared expression by expression: %s", rc.it.Tag, len(p.exprs), why))
	}
	switch {
	case vmr.Rejected:
		generic("rejected by the checker: " + firstLines(vmr.Diags, 2))
		return
	case vmr.Panic != "":
		generic("the VM side died with a Go panic")
		return
	case rc.f.Status != "ok":
		generic("the backend did not accept it: " + rc.f.Status + " " + firstLines(rc.f.Detail, 1))
		return
	case rc.berr != "" || !rc.built:
		generic("the generated Go did not compile")
		return
	case nat.Status != "ok":
		generic("native run: " + nat.Status)
		return
	case nat.GoPanic:
		generic("the native binary died with a Go panic")
		return
	}
	vv, okv := etParse(vmr.Stdout, len(p.exprs))
	nv, okn := etParse(nat.Stdout, len(p.exprs))
	if !okv || vmr.Failed {
		// an expression raised on the reference side although the generator's model says it cannot
		generic("the VM run did not print the values of all expressions: " + vmr.Rep.Head)
		return
	}
	if !okn {
		generic("the native output does not have the form (#index, values…)*")
		return
	}
	r.Eval(1)
	r.NT(1)
	r.Count("programs_compiled_natively", 1)
	var diffs []*etDiff
	var equal []*etExpr
	stopped := -1 // the first expression the native run did not print (it stopped there with an uncaught error)
	for _, e := range p.exprs {
		a, ina := vv[e.idx]
		b, inb := nv[e.idx]
		if !ina {
			generic(fmt.Sprintf("the VM run did not print expression %d", e.idx))
			return
		}
		switch {
		case !inb && nat.ExitCode != 0 && stopped < 0:
			stopped = e.idx
			diffs = append(diffs, &etDiff{e: e, vm: a, nat: "<uncaught error: " + normHead(nat.Rep.Head) + ">"})
		case !inb && stopped >= 0:
			// after the native run stopped: unknown
		case !inb:
			diffs = append(diffs, &etDiff{e: e, vm: a, nat: "<nothing printed>"})
		case a != b:
			diffs = append(diffs, &etDiff{e: e, vm: a, nat: b})
		default:
			equal = append(equal, e)
		}
	}
	r.Count("expr_trees_compared", len(diffs)+len(equal))
	r.Count("expr_trees_equal", len(equal))
	if stopped >= 0 {
		r.Capped(fmt.Sprintf("packed expression program %s: the native run stopped at expression %d of %d", rc.it.Tag, stopped, len(p.exprs)))
	}
	if len(diffs) == 0 {
		if nat.ExitCode != 0 || strings.TrimSpace(nat.Stderr) != strings.TrimSpace(vmr.Rep.Raw) {
			checkItem(r, rc) // every line equal, but exit status / stderr differ: the generic oracle words it
			return
		}
		r.Outcome("equal: expr-tree program ctx=" + p.ctx)
		r.Count("programs_equal", 1)
		return
	}
	r.Count("expr_trees_differing", len(diffs))
	for _, fd := range etLocalise(diffs, equal) {
		sort.Slice(fd.covered, func(i, j int) bool { return etLess(fd.covered[i], fd.covered[j]) })
		var d strings.Builder
		ex := fd.example
		if fd.unlocal {
			fmt.Fprintf(&d, "%d of the %d differing expressions of program %s (%d expressions, ctx=%s) carry no operator/operand-class pattern that differs in at least %.0f%% of the expressions carrying it.\n", len(fd.covered), len(diffs), rc.it.Tag, len(p.exprs), p.ctx, 100*etMinPrecision)
		} else {
			fmt.Fprintf(&d, "%d of the %d differing expressions of program %s (%d expressions, ctx=%s) are explained by this pattern; of the %d expressions of the program that carry it, %d differ.\n", len(fd.covered), len(diffs), rc.it.Tag, len(p.exprs), p.ctx, fd.nd+fd.ne, fd.nd)
		}
		fmt.Fprintf(&d, "smallest: v := %s   [%s]\n  VM prints %s, native prints %s\n", ex.e.src, ex.e.tree.shape(), ex.vm, ex.nat)
		for i, c := range fd.covered {
			if i >= 6 {
				fmt.Fprintf(&d, "  …\n")
				break
			}
			if c != ex {
				fmt.Fprintf(&d, "also: %s   VM %s, native %s\n", c.e.src, c.vm, c.nat)
			}
		}
		r.Violation(fd.sig, d.String(), etMinimalProgram(p, ex.e))
	}
	r.Outcome("violation: expr-tree values differ")
}

// etMinimalProgram: a stand-alone program with the one expression (the input recorded with a violation).
func etMinimalProgram(p *etProgram, e *etExpr) string {
	q := &etProgram{ctx: p.ctx, exprs: []*etExpr{{idx: 0, tree: e.tree, src: e.src}}}
	return etSource(q)
}

// etParseClassShape: the inverse of classShape, with a representative leaf kind per class (the loop variable for
// narrow, so that the rebuilt tree is not taken for a folded constant).
func etParseClassShape(s string) (t *etNode, ok bool) {
	rep := []etKind{kIt, kEdge, kBig, kLoc, kTmp}
	pos := 0
	var parse func() *etNode
	parse = func() *etNode {
		if pos < len(s) && s[pos] == '(' {
			pos++
			l := parse()
			if l == nil || pos+3 > len(s) || s[pos] != ' ' {
				return nil
			}
			e := strings.IndexByte(s[pos+1:], ' ')
			if e < 0 {
				return nil
			}
			op := s[pos+1 : pos+1+e]
			pos += e + 2
			r := parse()
			if r == nil || pos >= len(s) || s[pos] != ')' {
				return nil
			}
			pos++
			return &etNode{op: op, l: l, r: r}
		}
		for _, k := range rep {
			if c := etLeafClass(k); strings.HasPrefix(s[pos:], c) {
				pos += len(c)
				return &etNode{kind: k}
			}
		}
		return nil
	}
	t = parse()
	return t, t != nil && pos == len(s)
}

// etFinish (parent side): every program localises its own differing expressions, so one cause can surface under a
// coarse pattern in one program and under refinements of it (the same pattern plus the parent operator or the sibling
// class) in others: a finding whose pattern refines the pattern of another finding of the run is folded into that one.
// The unlocalised findings name the smallest differing tree of each program: those whose tree carries a pattern
// reported by another program are folded into that pattern, and of the rest only the smallest is kept.
func etFinish(a *engine.Agg) {
	pairs := func(sig string) map[string]bool {
		m := map[string]bool{}
		for _, kv := range strings.Fields(strings.TrimPrefix(sig, etSigPrefix)) {
			m[kv] = true
		}
		// what a pattern implies: a sibling that needs a temporary is evaluated later (earlier) than a left (right) operand
		if m["sibling="+etLeafClass(kTmp)] || m["sibling=inline-expr-over-temp"] {
			if m["position=left-operand"] {
				m["followed-by=operand-needing-a-temp"] = true
			}
			if m["position=right-operand"] {
				m["preceded-by=operand-needing-a-temp"] = true
			}
		}
		return m
	}
	var pats []string
	seen := map[string]bool{}
	for _, v := range a.Viol {
		if strings.HasPrefix(v.Sig, etSigPrefix) && !seen[v.Sig] {
			seen[v.Sig] = true
			pats = append(pats, v.Sig)
		}
	}
	sort.Strings(pats)
	foldInto := map[string]string{}
	for _, fine := range pats {
		fp := pairs(fine)
		for _, coarse := range pats {
			cp := pairs(coarse)
			if len(cp) >= len(fp) {
				continue
			}
			sub := true
			for kv := range cp {
				if !fp[kv] {
					sub = false
				}
			}
			if sub && (foldInto[fine] == "" || len(cp) < len(pairs(foldInto[fine]))) {
				foldInto[fine] = coarse
			}
		}
	}
	// unlocalised findings: explained by a reported pattern, or candidates for the one that is kept
	best := ""
	for _, v := range a.Viol {
		if !strings.HasPrefix(v.Sig, etUnlocalPrefix) || foldInto[v.Sig] != "" {
			continue
		}
		if t, ok := etParseClassShape(strings.TrimPrefix(v.Sig, etUnlocalPrefix)); ok {
			for _, f := range etFeatures(t) {
				if to := etSigPrefix + f.text; seen[to] && (foldInto[v.Sig] == "" || to < foldInto[v.Sig]) {
					foldInto[v.Sig] = to
				}
			}
		}
		if foldInto[v.Sig] == "" && (best == "" || len(v.Sig) < len(best) || (len(v.Sig) == len(best) && v.Sig < best)) {
			best = v.Sig
		}
	}
	var out []engine.Violation
	folded := map[string]int{}
	for _, v := range a.Viol {
		to := foldInto[v.Sig]
		for foldInto[to] != "" {
			to = foldInto[to]
		}
		if to == "" && strings.HasPrefix(v.Sig, etUnlocalPrefix) && v.Sig != best {
			to = best
		}
		if to != "" {
			folded[to]++
			continue
		}
		out = append(out, v)
	}
	a.Viol = out
	var keys []string
	for k := range folded {
		keys = append(keys, k)
	}
	sort.Strings(keys)
	for _, k := range keys {
		a.Notes = append(a.Notes, fmt.Sprintf("%d expr-tree findings of other programs (refinements of the pattern, or smallest trees that carry it / are larger) folded into %q", folded[k], k))
	}
}

// etDump: development aid — C09_EXPRDUMP=quick|thorough writes the packed programs to .work/c09x/ and prints sizes.
func etDump(tier string) {
	dir := "/verif/.work/c09x/progs-" + tier
	os.MkdirAll(dir, 0o755)
	total := 0
	for _, b := range exprBatches(tier == "thorough") {
		p := b.Expr
		total += len(p.exprs)
		name := strings.ReplaceAll(b.ID, "/", "_") + ".elk"
		os.WriteFile(dir+"/"+name, []byte(p.src), 0o644)
		fmt.Printf("%s: %d expressions, %d lines\n", b.ID, len(p.exprs), strings.Count(p.src, "\n"))
	}
	fmt.Printf("total %d expressions; excluded (zero divisor): %v\n", total, etExcluded)
}

// etOne: development aid — C09_EXPRONE="quick expr/meth/00" runs one packed program through the oracle.
func etOne(arg string) {
	f := strings.Fields(arg)
	for _, b := range exprBatches(f[0] == "thorough") {
		if b.ID != f[1] {
			continue
		}
		it := b.Items[0]
		rc := &rec{it: it, b: b, src: it.Code}
		rc.f = fronts([]string{rc.src})[0]
		if rc.f.Status == "ok" && !rc.f.VM.Rejected {
			dir := fmt.Sprintf("/verif/.work/c09/one-%d", os.Getpid())
			defer os.RemoveAll(dir)
			bin, errs := buildCombined(dir, map[int][]byte{0: rc.f.GoSrc})
			if e := errs[0]; e != "" {
				rc.berr = e
			} else {
				rc.built = true
				rc.nat = runNative(bin, 0)
			}
		}
		r := &engine.R{}
		checkExprProgram(r, rc, b.Expr)
		for _, v := range r.Viol {
			fmt.Printf("VIOLATION %s\n%s\ninput:\n%v\n", v.Sig, v.Detail, v.Input)
		}
		fmt.Printf("outcomes %v\ncounters %v\ncapped %q\n", r.Outcomes, r.Counters, r.Inexhaustive)
	}
}
