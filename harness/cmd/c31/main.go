// C31 — macro expansion is hygienic except where explicitly unhygienic.
//
// Bounded-exhaustive: every macro whose quoted body has ≤ 2 (thorough: ≤ 3) statements from
//
//	{ n := K, n = n + 100, println(n), println(!{x}) } over the names {a, b}, each reference either hygienic or wrapped
//	in `unhygienic`, × caller scopes defining none / a / b / both before the call and reading them after it × the caller
//	argument {a, a + b, 7} × call site {top-level block, method body} × a probe reading a macro-introduced name after the
//	call. Every program is run on its own (fresh VM, unique macro name).
//
// Oracle: a reference model of the hand-expanded program in which the macro's own locals are renamed apart (they live
//
//	in a scope of their own; hygienic references see only that scope; the caller's code and its variables are untouched
//	unless an `unhygienic` reference names a variable only the caller has). The model's verdict is cross-checked against
//	Elk itself running the hand-expanded, renamed program, and (bodies without `unhygienic`) against the printed
//	expansion `do macro … end`. Situations the property statement leaves open are counted, not judged.
package main

import (
	"fmt"
	"os"
	"regexp"
	"sort"
	"strings"
	"sync/atomic"
	"time"

	"verifharness/elkrun"
	"verifharness/engine"
)

type stmt struct {
	op   byte   // 'D' define (n := K), 'V' declare (var n: Int = K), 'S' assign n = n + 100, 'P' println(n), 'X' println(<caller argument>)
	name string // a | b ("" for X)
	unh  bool   // wrapped in unhygienic
}

func (s stmt) String() string {
	t := string(s.op)
	if s.name != "" {
		t += "(" + s.name + ")"
	}
	if s.unh {
		t += "u"
	}
	return t
}

type prog struct {
	body   []stmt
	defA   bool
	defB   bool
	arg    string // "" = the macro has no parameter
	method bool   // call site inside a method body
	probe  string // name read after the call although the caller never defined it
	// layout variants (second family): they change nothing for a hygienic expansion
	wrap  bool // the quoted body is wrapped in `if <call returning true>` … `end`
	lateA bool // the caller declares `var a: Int` before the call and assigns/prints it only after the call
	lateB bool
}

func (p prog) id() string {
	var b []string
	for _, s := range p.body {
		b = append(b, s.String())
	}
	site := "top"
	if p.method {
		site = "method"
	}
	return fmt.Sprintf("[%s] caller{a:%v b:%v lateA:%v lateB:%v} arg=%q site=%s probe=%q wrap=%v", strings.Join(b, ";"), p.defA, p.defB, p.lateA, p.lateB, p.arg, site, p.probe, p.wrap)
}

var kconst = map[string]int{"a": 51, "b": 52}
var cinit = map[string]int{"a": 1, "b": 2}

func argNames(arg string) []string {
	var n []string
	for _, x := range []string{"a", "b"} {
		if strings.Contains(arg, x) {
			n = append(n, x)
		}
	}
	return n
}

// ---------------------------------------------------------------------------------------------------------------
// reference model

type verdict struct {
	reject    bool
	why       string // reason of the expected rejection (class)
	lines     []string
	ambiguous string // non-empty: the property statement does not decide this program
}

// model evaluates the hand-expanded, renamed-apart program. macroFirst=true gives the reading in which an unhygienic
// reference prefers the macro's own local (used only to classify deviations).
func model(p prog, macroFirst bool) verdict {
	ms := map[string]int{}
	cs := map[string]int{}
	if p.defA {
		cs["a"] = cinit["a"]
	}
	if p.defB {
		cs["b"] = cinit["b"]
	}
	var v verdict
	rej := func(why string) {
		if !v.reject {
			v.reject, v.why = true, why
		}
	}
	amb := func(why string) {
		if v.ambiguous == "" {
			v.ambiguous = why
		}
	}
	late := func(n string) bool { return (n == "a" && p.lateA) || (n == "b" && p.lateB) }
	// resolve a macro-authored reference
	resolve := func(s stmt) (m map[string]int, ok bool) {
		if s.unh && late(s.name) {
			amb("unhygienic reference to a caller local that is declared but not yet initialised")
		}
		_, inM := ms[s.name]
		_, inC := cs[s.name]
		if !s.unh {
			if !inM {
				if inC {
					rej("hygienic reference to a caller local")
				} else {
					rej("undefined name")
				}
				return nil, false
			}
			return ms, true
		}
		switch {
		case inM && inC:
			amb("macro-authored unhygienic reference to a name defined by both the macro and the caller")
			if macroFirst {
				return ms, true
			}
			return cs, true
		case inM:
			amb("macro-authored unhygienic reference to the macro's own local")
			return ms, true
		case inC:
			return cs, true
		}
		rej("undefined name")
		return nil, false
	}
	for _, s := range p.body {
		switch s.op {
		case 'D', 'V':
			if _, again := ms[s.name]; again && s.op == 'V' {
				rej("the macro declares the same local twice") // `var` of an existing local is an error in any Elk scope
			}
			ms[s.name] = kconst[s.name]
		case 'S':
			if m, ok := resolve(s); ok {
				m[s.name] += 100
			}
		case 'P':
			if m, ok := resolve(s); ok {
				v.lines = append(v.lines, fmt.Sprint(m[s.name]))
			}
		case 'X':
			names := argNames(p.arg)
			sum, bad := 0, false
			if len(names) == 0 {
				sum = 7
			}
			for _, n := range names {
				_, inM := ms[n]
				_, inC := cs[n]
				if late(n) {
					amb("caller argument naming a caller local that is declared but not yet initialised")
				}
				switch {
				case !s.unh && inM:
					amb("hygienic splice of caller code naming a macro local")
					sum += ms[n]
				case !s.unh && inC:
					rej("hygienic splice of caller code cannot see caller locals")
					bad = true
				case !s.unh:
					rej("undefined name")
					bad = true
				case inC && inM && macroFirst:
					sum += ms[n]
				case inC:
					sum += cs[n] // the caller's code means the caller's variable
				case inM && macroFirst:
					sum += ms[n]
				case inM:
					rej("caller code must not see a macro local")
					bad = true
				default:
					rej("undefined name")
					bad = true
				}
			}
			if !bad {
				v.lines = append(v.lines, fmt.Sprint(sum))
			}
		}
	}
	for _, n := range []string{"a", "b"} {
		if x, ok := cs[n]; ok {
			v.lines = append(v.lines, fmt.Sprint(x))
		} else if late(n) {
			v.lines = append(v.lines, fmt.Sprint(cinit[n])) // assigned by the caller after the call
		}
	}
	if p.probe != "" {
		rej("macro-introduced local read after the call")
	}
	return v
}

// ---------------------------------------------------------------------------------------------------------------
// program printers

var seq int64

func uniq() int64 { return atomic.AddInt64(&seq, 1) }

func stmtSrc(s stmt, rename func(string) string) string {
	n := rename(s.name)
	switch s.op {
	case 'D':
		return fmt.Sprintf("%s := %d", n, kconst[s.name])
	case 'V':
		return fmt.Sprintf("var %s: Int = %d", n, kconst[s.name])
	case 'S':
		return fmt.Sprintf("%s = %s + 100", n, n)
	case 'P':
		return fmt.Sprintf("println(%s)", n)
	}
	panic("stmtSrc")
}

func ident(s string) string { return s }

// callSite wraps the statements of the caller around `call`
func callSite(p prog, k int64, call []string) string {
	var l []string
	if p.defA {
		l = append(l, "a := 1")
	}
	if p.defB {
		l = append(l, "b := 2")
	}
	if p.lateA {
		l = append(l, "var a: Int")
	}
	if p.lateB {
		l = append(l, "var b: Int")
	}
	l = append(l, call...)
	if p.lateA {
		l = append(l, "a = 1")
	}
	if p.defA || p.lateA {
		l = append(l, "println(a)")
	}
	if p.lateB {
		l = append(l, "b = 2")
	}
	if p.defB || p.lateB {
		l = append(l, "println(b)")
	}
	if p.probe != "" {
		l = append(l, "println("+p.probe+")")
	}
	var b strings.Builder
	if p.method {
		fmt.Fprintf(&b, "def c%d\n", k)
	} else {
		b.WriteString("do\n")
	}
	for _, x := range l {
		b.WriteString("  " + x + "\n")
	}
	b.WriteString("  nil\nend\n")
	if p.method {
		fmt.Fprintf(&b, "c%d()\n", k)
	}
	return b.String()
}

// macroProgram: the program under test
func macroProgram(p prog) string {
	k := uniq()
	var b strings.Builder
	b.WriteString("using Std::Elk::AST::*\n")
	if p.wrap {
		fmt.Fprintf(&b, "def y%d: bool then true\n", k)
	}
	param := ""
	if p.arg != "" {
		param = "(x: ExpressionNode)"
	}
	fmt.Fprintf(&b, "macro m%d%s\n", k, param)
	var q []string
	for i, s := range p.body {
		switch {
		case s.op == 'X' && s.unh:
			q = append(q, "println(!{unhygienic(x)})")
		case s.op == 'X':
			q = append(q, "println(!{x})")
		case s.unh:
			fmt.Fprintf(&b, "  u%d := quote\n    %s\n  end\n", i, stmtSrc(s, ident))
			q = append(q, fmt.Sprintf("!{unhygienic(u%d)}", i))
		default:
			q = append(q, stmtSrc(s, ident))
		}
	}
	b.WriteString("  quote\n")
	if p.wrap {
		fmt.Fprintf(&b, "    if y%d()\n", k)
	}
	for _, x := range q {
		if p.wrap {
			b.WriteString("  ")
		}
		b.WriteString("    " + x + "\n")
	}
	if p.wrap {
		b.WriteString("    end\n")
	}
	b.WriteString("  end\nend\n")
	call := fmt.Sprintf("m%d!()", k)
	if p.arg != "" {
		call = fmt.Sprintf("m%d!(%s)", k, p.arg)
	}
	b.WriteString(callSite(p, k, []string{call}))
	return b.String()
}

// handProgram: the expansion written by hand with the macro's locals renamed apart; only defined when the model
// neither rejects nor is undecided (every reference is resolved by the model).
func handProgram(p prog) string {
	ms := map[string]bool{}
	var l []string
	l = append(l, "do")
	mren := func(n string) string { return n + "__m" }
	for _, s := range p.body {
		switch s.op {
		case 'D', 'V':
			ms[s.name] = true
			l = append(l, "  "+stmtSrc(s, mren))
		case 'S', 'P':
			if !s.unh || ms[s.name] && !((p.defA && s.name == "a") || (p.defB && s.name == "b")) {
				l = append(l, "  "+stmtSrc(s, mren))
			} else {
				l = append(l, "  "+stmtSrc(s, ident))
			}
		case 'X':
			l = append(l, "  println("+p.arg+")")
		}
	}
	l = append(l, "end")
	return callSite(p, uniq(), l)
}

// printedProgram: the printed expansion `do macro … end` (bodies without unhygienic references and without parameter)
func printedProgram(p prog) string {
	var l []string
	k := uniq()
	l = append(l, "do macro")
	ind := "  "
	if p.wrap {
		l = append(l, fmt.Sprintf("  if yp%d()", k))
		ind = "    "
	}
	for _, s := range p.body {
		if s.op == 'X' {
			l = append(l, ind+"println("+p.arg+")")
		} else {
			l = append(l, ind+stmtSrc(s, ident))
		}
	}
	if p.wrap {
		l = append(l, "  end")
	}
	l = append(l, "end")
	pre := ""
	if p.wrap {
		pre = fmt.Sprintf("def yp%d: bool then true\n", k)
	}
	return pre + callSite(p, k, l)
}

// ---------------------------------------------------------------------------------------------------------------
// observation

type observed struct {
	rejected bool
	diag     string
	lines    []string
	err      string
	panicSig string
	stack    string
}

func runSrc(src string) observed {
	r := elkrun.Run(src, nil)
	o := observed{rejected: r.Rejected, diag: r.Diags, err: r.Err, panicSig: r.PanicSig, stack: r.Stack}
	if r.Panic != "" && o.panicSig == "" {
		o.panicSig = r.Panic
	}
	if s := strings.TrimRight(r.Stdout, "\n"); s != "" {
		o.lines = strings.Split(s, "\n")
	}
	return o
}

func (o observed) String() string {
	switch {
	case o.rejected:
		return "rejected: " + firstLine(o.diag)
	case o.panicSig != "":
		return "Go panic: " + o.panicSig + " after printing " + fmt.Sprint(o.lines)
	case o.err != "":
		return "uncaught error " + o.err + " after printing " + fmt.Sprint(o.lines)
	}
	return "prints " + fmt.Sprint(o.lines)
}

func firstLine(s string) string {
	s = strings.TrimSpace(s)
	if i := strings.IndexByte(s, '\n'); i >= 0 {
		return s[:i]
	}
	return s
}

func eqLines(a, b []string) bool {
	if len(a) != len(b) {
		return false
	}
	for i := range a {
		if a[i] != b[i] {
			return false
		}
	}
	return true
}

var numRe = regexp.MustCompile(`\d+`)
var nameRe = regexp.MustCompile("`[ab]`")
var locRe = regexp.MustCompile(`^p\.elk:\d+:\d+: `)

// judge returns the violation kind of an observation against the model ("" = agrees)
func judge(p prog, o observed) string {
	v := model(p, false)
	switch {
	case o.panicSig != "":
		return "go-panic " + o.panicSig
	case v.reject && !o.rejected && v.why == "caller code must not see a macro local":
		return kindCapture
	case v.reject && !o.rejected:
		return "accepted but must be rejected: " + v.why
	case !v.reject && o.rejected:
		return "rejected but must be accepted: " + nameRe.ReplaceAllString(numRe.ReplaceAllString(locRe.ReplaceAllString(firstLine(o.diag), ""), "N"), "`n`")
	case v.reject:
		return ""
	case o.err != "":
		return "uncaught error " + firstLine(addrRe.ReplaceAllString(o.err, "0x"))
	case !eqLines(v.lines, o.lines):
		if alt := model(p, true); !alt.reject && eqLines(alt.lines, o.lines) {
			return kindCapture
		}
		return "wrong output"
	}
	return ""
}

const kindCapture = "capture: caller code spliced with `unhygienic` resolves a name to the macro's own local (read instead of the caller's variable of that name, or accepted although the caller has no such variable)"

var addrRe = regexp.MustCompile(`0x[0-9a-f]+`)

// ---------------------------------------------------------------------------------------------------------------
// signatures: shrink the program, name the defect by the remaining shape

func canonShape(p prog) string {
	ren := map[string]string{}
	next := 0
	nm := func(n string) string {
		if n == "" {
			return ""
		}
		if _, ok := ren[n]; !ok {
			next++
			ren[n] = fmt.Sprintf("n%d", next)
		}
		return ren[n]
	}
	var b []string
	for _, s := range p.body {
		t := string(s.op)
		if s.name != "" {
			t += "(" + nm(s.name) + ")"
		}
		if s.unh {
			t += "u"
		}
		b = append(b, t)
	}
	var cd []string
	if p.defA {
		cd = append(cd, nm("a"))
	}
	if p.defB {
		cd = append(cd, nm("b"))
	}
	sort.Strings(cd)
	arg := p.arg
	for _, n := range argNames(p.arg) {
		arg = strings.ReplaceAll(arg, n, nm(n))
	}
	site := "top-level"
	if p.method {
		site = "method"
	}
	s := fmt.Sprintf("body=[%s] caller-defines={%s} site=%s", strings.Join(b, "; "), strings.Join(cd, ","), site)
	if p.arg != "" {
		s += " arg=" + arg
	}
	if p.probe != "" {
		s += " reads " + nm(p.probe) + " after the call"
	}
	var ld []string
	if p.lateA {
		ld = append(ld, nm("a"))
	}
	if p.lateB {
		ld = append(ld, nm("b"))
	}
	if len(ld) > 0 {
		sort.Strings(ld)
		s += " caller-declares-uninitialised={" + strings.Join(ld, ",") + "}"
	}
	if p.wrap {
		s += " body-wrapped-in-if"
	}
	return s
}

func hasX(p prog) bool {
	for _, s := range p.body {
		if s.op == 'X' {
			return true
		}
	}
	return false
}

func valid(p prog) bool {
	if hasX(p) != (p.arg != "") {
		return false
	}
	if (p.defA && p.lateA) || (p.defB && p.lateB) {
		return false
	}
	if p.probe != "" {
		if (p.probe == "a" && (p.defA || p.lateA)) || (p.probe == "b" && (p.defB || p.lateB)) {
			return false
		}
		ok := false
		for _, s := range p.body {
			if (s.op == 'D' || s.op == 'V') && s.name == p.probe {
				ok = true
			}
		}
		if !ok {
			return false
		}
	}
	return len(p.body) > 0
}

func smallerProgs(p prog) []prog {
	var out []prog
	for i := range p.body {
		q := p
		q.body = append(append([]stmt(nil), p.body[:i]...), p.body[i+1:]...)
		if !hasX(q) {
			q.arg = ""
		}
		out = append(out, q)
	}
	if p.method {
		q := p
		q.method = false
		out = append(out, q)
	}
	if p.defA {
		q := p
		q.defA = false
		out = append(out, q)
	}
	if p.defB {
		q := p
		q.defB = false
		out = append(out, q)
	}
	if p.wrap {
		q := p
		q.wrap = false
		out = append(out, q)
	}
	if p.lateA {
		q := p
		q.lateA = false
		out = append(out, q)
	}
	if p.lateB {
		q := p
		q.lateB = false
		out = append(out, q)
	}
	if p.arg == "a + b" {
		q := p
		q.arg = "a"
		out = append(out, q)
	}
	if p.arg != "" && p.arg != "7" {
		q := p
		q.arg = "7"
		out = append(out, q)
	}
	if p.probe != "" {
		q := p
		q.probe = ""
		out = append(out, q)
	}
	var ok []prog
	for _, q := range out {
		if valid(q) {
			ok = append(ok, q)
		}
	}
	return ok
}

var sigMemo = map[string]string{}

// class of a violation kind: Go panics form one class whatever the (state-dependent) message is
func classOf(kind string) string {
	if strings.HasPrefix(kind, "go-panic") {
		return "go-panic"
	}
	if strings.HasPrefix(kind, "uncaught error") {
		return "uncaught error"
	}
	return kind
}

// canonical replacements: any statement that merely has to be there is turned into `println(!{x})` with x = 7
func replacements(p prog) []prog {
	var out []prog
	for i, s := range p.body {
		if s.op == 'X' && !s.unh {
			continue
		}
		q := p
		q.body = append([]stmt(nil), p.body...)
		q.body[i] = stmt{'X', "", false}
		if q.arg == "" {
			q.arg = "7"
		}
		if valid(q) {
			out = append(out, q)
		}
	}
	return out
}

func signature(p prog, kind string) (string, prog) {
	class := classOf(kind)
	key := class + "\x00" + canonShape(p)
	cur := p
	if s, ok := sigMemo[key]; ok {
		return s, p
	}
	if class == kindCapture {
		sigMemo[key] = class
		return class, p
	}
	if class == "go-panic" {
		for i, st := range p.body {
			if st.op == 'S' && st.unh && i < len(p.body)-1 {
				// the statement compiles to SET_LOCAL without DUP followed by the statement separator's POP: the
				// symptom (which Go panic, where) depends on what the extra POP removes
				s := "go-panic after an `unhygienic` assignment statement that is not the last statement of the expansion"
				sigMemo[key] = s
				return s, p
			}
		}
	}
	try := func(q prog) bool {
		if class != "go-panic" && model(q, false).ambiguous != "" {
			return false
		}
		return classOf(judge(q, runSrc(macroProgram(q)))) == class
	}
	for changed := true; changed; {
		changed = false
		for _, q := range smallerProgs(cur) {
			if try(q) {
				cur = q
				changed = true
				break
			}
		}
		if changed {
			continue
		}
		for _, q := range replacements(cur) {
			if try(q) {
				cur = q
				changed = true
				break
			}
		}
	}
	s := class + " [minimal: " + canonShape(cur) + "]"
	sigMemo[key] = s
	return s, cur
}

// ---------------------------------------------------------------------------------------------------------------

func alphabet() []stmt {
	var a []stmt
	for _, n := range []string{"a", "b"} {
		a = append(a, stmt{'D', n, false}, stmt{'V', n, false}, stmt{'S', n, false}, stmt{'S', n, true}, stmt{'P', n, false}, stmt{'P', n, true})
	}
	a = append(a, stmt{'X', "", false}, stmt{'X', "", true})
	return a
}

func bodies(maxLen int) [][]stmt {
	al := alphabet()
	var out [][]stmt
	var rec func(cur []stmt)
	rec = func(cur []stmt) {
		if len(cur) > 0 {
			out = append(out, append([]stmt(nil), cur...))
		}
		if len(cur) == maxLen {
			return
		}
		for _, s := range al {
			rec(append(cur, s))
		}
	}
	rec(nil)
	return out
}

func variants(body []stmt) []prog {
	var out []prog
	args := []string{""}
	base := prog{body: body}
	if hasX(base) {
		args = []string{"a", "a + b", "7"}
	}
	defs := map[string]bool{}
	for _, s := range body {
		if s.op == 'D' || s.op == 'V' {
			defs[s.name] = true
		}
	}
	// caller state of a name: 0 = not declared, 1 = defined before the call, 2 = declared uninitialised before the call
	// and assigned after it; wrap: the quoted body inside `if`
	for _, sa := range []int{0, 1, 2} {
		for _, sb := range []int{0, 1, 2} {
			for _, wrap := range []bool{false, true} {
				for _, arg := range args {
					for _, m := range []bool{false, true} {
						p := prog{body: body, defA: sa == 1, defB: sb == 1, lateA: sa == 2, lateB: sb == 2, wrap: wrap, arg: arg, method: m}
						out = append(out, p)
						for _, pr := range []string{"a", "b"} {
							q := p
							q.probe = pr
							if defs[pr] && valid(q) {
								out = append(out, q)
							}
						}
					}
				}
			}
		}
	}
	return out
}

var debugOnly = os.Getenv("C31_ONLY")

func main() {
	engine.Main(&engine.Spec{
		Prop:  "C31",
		Level: "exploration",
		Rule: "every macro with a quoted body of 1..2 (thorough: 1..3) statements over {n := K, var n: Int = K, n = n + 100, println(n), println(!{x})}, n ∈ {a, b}, every reference hygienic or wrapped in unhygienic (14 statement forms) " +
			"× every caller state of a and b (not declared / defined before the call / declared uninitialised before the call and assigned after it), printed after the call × quoted body plain or wrapped in an `if` × argument {a, a + b, 7} (bodies with !{x}) × call site {top-level block, method} × probe reading a macro-defined name after the call; each program run alone under a unique macro name. " +
			"Oracle: reference model of the hand-expanded program with the macro's locals renamed apart; validated by running the hand-expanded renamed program and the printed expansion `do macro … end` through Elk. A program is non-trivial when the model decides it; programs the statement leaves open are counted",
		Assume:      []string{"caller code (the macro argument) always means the caller's variables; inside `unhygienic` a name the caller defines is the caller's", "what a macro-authored unhygienic reference means when the macro has a local of that name is not stated: counted, not judged", "a hygienically spliced argument that names a macro local is not stated: counted"},
		Setup:       func(c *engine.Ctx) { elkrun.Init() },
		Run:         run,
		CaseTimeout: 300 * time.Second,
	})
}

func run(c *engine.Ctx) {
	maxLen := 2
	if c.Thorough {
		maxLen = 3
	}
	bs := bodies(maxLen)
	const per = 2
	for i := 0; i < len(bs); i += per {
		hi := i + per
		if hi > len(bs) {
			hi = len(bs)
		}
		chunk := bs[i:hi]
		id := fmt.Sprintf("bodies/%d-%d", i, hi-1)
		if debugOnly != "" && !strings.Contains(id, debugOnly) {
			continue
		}
		c.Case(id, func(r *engine.R) {
			for _, body := range chunk {
				for _, p := range variants(body) {
					evalProg(r, p)
				}
			}
		})
	}
}

func evalProg(r *engine.R, p prog) {
	v := model(p, false)
	src := macroProgram(p)
	o := runSrc(src)
	r.Eval(1)
	// differential 1 (needs no model): the printed expansion `do macro … end` behaves like the macro call
	unh := false
	for _, s := range p.body {
		unh = unh || s.unh
	}
	if !unh && o.panicSig == "" {
		ps := printedProgram(p)
		po := runSrc(ps)
		r.Eval(1)
		if po.rejected != o.rejected || (!o.rejected && (!eqLines(po.lines, o.lines) || po.panicSig != "" || (po.err == "") != (o.err == ""))) {
			r.Violation("macro call and its printed expansion `do macro … end` behave differently ["+canonShape(p)+"]",
				fmt.Sprintf("%s\nmacro program: %s\nprinted expansion: %s\n--- macro program\n%s--- printed expansion\n%s", p.id(), o, po, src, ps), src)
		}
	}
	if v.ambiguous != "" {
		r.Count("undecided: "+v.ambiguous, 1)
		r.Outcome("undecided")
		if o.panicSig == "" {
			return
		}
	}
	r.NT(1)
	// validation of the model: Elk running the hand-expanded renamed program agrees with the model
	if !v.reject && v.ambiguous == "" {
		hs := handProgram(p)
		ho := runSrc(hs)
		r.Eval(1)
		if ho.rejected || ho.panicSig != "" || ho.err != "" || !eqLines(ho.lines, v.lines) {
			r.Violation("hand-expanded renamed program disagrees with the reference model", fmt.Sprintf("%s\nmodel: %v\nhand-expanded: %s\n%s", p.id(), v.lines, ho, hs), hs)
			return
		}
	}
	kind := judge(p, o)
	if kind == "" {
		switch {
		case v.reject:
			r.Outcome("rejected: " + v.why)
		default:
			r.Outcome(fmt.Sprintf("prints %d lines", len(v.lines)))
		}
		return
	}
	sig, min := signature(p, kind)
	minSrc := macroProgram(min)
	exp := "prints " + fmt.Sprint(v.lines)
	if v.reject {
		exp = "rejected (" + v.why + ")"
	}
	r.Violation(sig, fmt.Sprintf("%s\nexpected: %s\nobserved: %s\n--- program\n%s--- minimal program with the same failure (%s)\n%s", p.id(), exp, o, src, min.id(), minSrc), src)
	r.Outcome("violation")
}
