// C32 — uncaught errors report the active call chain with correct lines.
//
// Bounded-exhaustive over programs: every call chain of depth ≤ 3 (quick) / ≤ 4 (thorough) over seven frame kinds
//
//	M  top-level method                 I  instance method            S  module (singleton) method
//	C  closure called with .() / .call  N  closure passed to the native iterator ArrayList#map
//	G  generator consumed by for…in     A  async function awaited (await / await_sync)
//
// with a throw at the leaf (a symbol or an Error object), crossed with filler patterns: 0–2 filler statements (a
// one-line local declaration, a four-line list literal) before every call site and before the throw, so that the
// line tables of all frames differ from program to program; the call site of every frame (and the throw) sits inside
// one of {plain statement, if, while, do/finally, continuation line, do/catch, switch}, rotating with the pattern
// index and the frame depth. Calls are never in tail position (tail calls are replaced, not active, frames). Callee
// definitions precede their callers.
//
// Oracle: the generator knows the chain. The frames of the uncaught error's stack trace that belong to the program
// file must be exactly the active frames, outermost first: the top level (line of its call), each function (its
// name; line of its call site; the leaf: line of the throw). Frames of other files (native frames) are ignored, so
// for native callbacks, generators and promises only the presence and order of the bytecode frames around the
// boundary is asserted. The names of closures and of the top-level frame are not asserted.
package main

import (
	"fmt"
	"os"
	"runtime/debug"
	"strings"
	"time"

	"github.com/elk-language/elk/value"
	"github.com/elk-language/elk/vm"

	"verifharness/elkrun"
	"verifharness/engine"
)

const fileName = "p32.elk"

var kinds = []byte{'M', 'I', 'S', 'C', 'N', 'G', 'A'}

// ---------------------------------------------------------------------------------------------
// program generator

type frameExp struct {
	Kind byte   // 'T' top level, else one of kinds
	Name string // simple name of the method ("" for closures and the top level)
	unit *unit
	rel  int // 1-based line inside the unit
	Line int // absolute line (after layout)
}

type unit struct {
	lines []string
	start int
}

// add appends one statement (possibly spanning several lines) and returns the line it STARTS on.
func (u *unit) add(indent, s string) int {
	first := len(u.lines) + 1
	for _, l := range strings.Split(s, "\n") {
		u.lines = append(u.lines, indent+l)
	}
	return first
}

type gen struct {
	chain   string // kinds of frames 1..d
	fillers []int  // fillers[k]: number of filler statements in frame k (0..d)
	alt     bool   // alternative forms: .call() instead of .(), await_sync instead of await, Error object instead of a symbol
	wrapOff int    // frame k wraps its call site (or throw) in construct wraps[(wrapOff+k) % len(wraps)]
	units   []*unit
	frames  []frameExp
}

func (g *gen) kind(k int) byte {
	if k == 0 {
		return 'T'
	}
	return g.chain[k-1]
}

func (g *gen) filler(k int, u *unit, ind string) {
	n := g.fillers[k]
	if n >= 1 {
		u.add(ind, fmt.Sprintf("t%d := %d", k, k))
	}
	if n >= 2 {
		u.add(ind, fmt.Sprintf("u%d := [", k))
		u.add(ind, "  1,")
		u.add(ind, "  2")
		u.add(ind, "]")
	}
	if n >= 3 {
		// wide frame: more than 255 entries in the function's value pool (the 16 bit instruction forms follow)
		for i := 0; i < 135; i++ {
			u.add(ind, fmt.Sprintf("w%d_%d := \"w%d_%d\".length", k, i, k, i))
		}
	}
}

// multiline spreads the argument list of a call over two lines in wide frames (the frame's line is where the call starts)
func (g *gen) multiline(k int, ind, expr string) string {
	if g.fillers[k] >= 3 && strings.HasSuffix(expr, "()") {
		return strings.TrimSuffix(expr, "()") + "(\n" + "    )"
	}
	return expr
}

// Constructs around a call site / throw: the line tables of jumps, catch entries and continuation lines.
var wraps = []string{"plain", "if", "while", "finally", "cont", "catch", "switch"}

func (g *gen) wrap(k int) string { return wraps[(g.wrapOff+k)%len(wraps)] }

// call emits `v := expr` inside the construct chosen for frame k and returns the line of expr.
func (g *gen) call(k int, u *unit, ind, v, expr string) int {
	expr = g.multiline(k, ind, expr)
	decl := func() { u.add(ind, fmt.Sprintf("var %s: Int = 0", v)) }
	var ln int
	switch g.wrap(k) {
	case "if":
		decl()
		u.add(ind, fmt.Sprintf("q%d := 1", k))
		u.add(ind, fmt.Sprintf("if q%d > 0", k))
		ln = u.add(ind, fmt.Sprintf("  %s = %s", v, expr))
		u.add(ind, "end")
	case "while":
		decl()
		u.add(ind, fmt.Sprintf("while %s == 0", v))
		ln = u.add(ind, fmt.Sprintf("  %s = %s", v, expr))
		u.add(ind, "end")
	case "finally":
		decl()
		u.add(ind, "do")
		ln = u.add(ind, fmt.Sprintf("  %s = %s", v, expr))
		u.add(ind, "finally")
		u.add(ind, "  nil")
		u.add(ind, "end")
	case "cont":
		u.add(ind, fmt.Sprintf("%s := 0 +", v))
		ln = u.add(ind, "  "+expr)
	case "catch":
		decl()
		u.add(ind, "do")
		ln = u.add(ind, fmt.Sprintf("  %s = %s", v, expr))
		u.add(ind, "catch :nope")
		u.add(ind, fmt.Sprintf("  %s = 3", v))
		u.add(ind, "end")
	case "switch":
		decl()
		u.add(ind, fmt.Sprintf("switch %s", v))
		u.add(ind, "case 0")
		ln = u.add(ind, fmt.Sprintf("  %s = %s", v, expr))
		u.add(ind, "case 1")
		u.add(ind, fmt.Sprintf("  %s = 5", v))
		u.add(ind, "end")
	default:
		ln = u.add(ind, fmt.Sprintf("%s := %s", v, expr))
	}
	return ln
}

// throwStmt emits the throw of the leaf frame k inside the construct chosen for it and returns its line.
func (g *gen) throwStmt(k int, u *unit, ind string) int {
	th := "throw unchecked :boom"
	if g.alt {
		th = `throw unchecked E32("boom")`
	}
	var ln int
	switch g.wrap(k) {
	case "if", "switch":
		u.add(ind, fmt.Sprintf("q%d := 1", k))
		u.add(ind, fmt.Sprintf("if q%d > 0", k))
		ln = u.add(ind, "  "+th)
		u.add(ind, "end")
		u.add(ind, "0")
	case "finally", "catch":
		u.add(ind, "do")
		ln = u.add(ind, "  "+th)
		u.add(ind, "finally")
		u.add(ind, "  nil")
		u.add(ind, "end")
	case "while":
		u.add(ind, fmt.Sprintf("var q%d: Int = 0", k))
		u.add(ind, fmt.Sprintf("while q%d == 0", k))
		ln = u.add(ind, "  "+th)
		u.add(ind, "end")
		u.add(ind, "0")
	default:
		ln = u.add(ind, th)
	}
	return ln
}

// body appends the body of frame k to unit u.
func (g *gen) body(k int, u *unit, ind string) {
	d := len(g.chain)
	me := g.kind(k)
	if me == 'G' {
		u.add(ind, "yield 0")
	}
	g.filler(k, u, ind)
	if k == d {
		g.frames[k].unit, g.frames[k].rel = u, g.throwStmt(k, u, ind)
		return
	}
	n := k + 1
	v := fmt.Sprintf("v%d", k)
	var ln int
	switch g.kind(n) {
	case 'M':
		nu := g.newUnit()
		nu.add("", fmt.Sprintf("def f%d: Int", n))
		g.body(n, nu, "  ")
		nu.add("", "end")
		g.frames[n].Name = fmt.Sprintf("f%d", n)
		ln = g.call(k, u, ind, v, fmt.Sprintf("f%d()", n))
	case 'I':
		nu := g.newUnit()
		nu.add("", fmt.Sprintf("class K%d", n))
		nu.add("  ", fmt.Sprintf("def m%d: Int", n))
		g.body(n, nu, "    ")
		nu.add("  ", "end")
		nu.add("", "end")
		g.frames[n].Name = fmt.Sprintf("m%d", n)
		ln = g.call(k, u, ind, v, fmt.Sprintf("K%d().m%d()", n, n))
	case 'S':
		nu := g.newUnit()
		nu.add("", fmt.Sprintf("module Q%d", n))
		nu.add("  ", fmt.Sprintf("def s%d: Int", n))
		g.body(n, nu, "    ")
		nu.add("  ", "end")
		nu.add("", "end")
		g.frames[n].Name = fmt.Sprintf("s%d", n)
		ln = g.call(k, u, ind, v, fmt.Sprintf("Q%d.s%d()", n, n))
	case 'G':
		nu := g.newUnit()
		nu.add("", fmt.Sprintf("def *g%d: Int", n))
		g.body(n, nu, "  ")
		nu.add("", "end")
		g.frames[n].Name = fmt.Sprintf("g%d", n)
		u.add(ind, fmt.Sprintf("var %s: Int = 0", v))
		ln = u.add(ind, fmt.Sprintf("for e%d in g%d()", k, n))
		u.add(ind, fmt.Sprintf("  %s += e%d", v, k))
		u.add(ind, "end")
	case 'A':
		nu := g.newUnit()
		nu.add("", fmt.Sprintf("async def a%d: Int", n))
		g.body(n, nu, "  ")
		nu.add("", "end")
		g.frames[n].Name = fmt.Sprintf("a%d", n)
		if (me == 'T' || me == 'A') && !g.alt {
			ln = g.call(k, u, ind, v, fmt.Sprintf("await a%d()", n))
		} else {
			ln = g.call(k, u, ind, v, fmt.Sprintf("a%d().await_sync", n))
		}
	case 'C':
		u.add(ind, fmt.Sprintf("c%d := ||: Int ->", n))
		g.body(n, u, ind+"  ")
		u.add(ind, "end")
		if g.alt {
			ln = g.call(k, u, ind, v, fmt.Sprintf("c%d.call()", n))
		} else {
			ln = g.call(k, u, ind, v, fmt.Sprintf("c%d.()", n))
		}
	case 'N':
		u.add(ind, fmt.Sprintf("c%d := |x%d: Int|: Int ->", n, n))
		g.body(n, u, ind+"  ")
		u.add(ind, "end")
		ln = u.add(ind, fmt.Sprintf("l%d := [7].map(c%d)", k, n))
		u.add(ind, fmt.Sprintf("%s := l%d.length", v, k))
	}
	g.frames[k].unit, g.frames[k].rel = u, ln
	switch me {
	case 'T':
		u.add(ind, fmt.Sprintf("println(%s)", v))
	default: // also generators: no yield after the call (a closure literal inside a generator makes the checker reject later yields)
		u.add(ind, fmt.Sprintf("%s + 1", v))
	}
}

func (g *gen) newUnit() *unit {
	u := &unit{}
	g.units = append(g.units, u)
	return u
}

// build returns the program text and the expected frames (outermost first).
func build(chain string, fillers []int, alt bool, wrapOff int) (string, []frameExp) {
	g := &gen{chain: chain, fillers: fillers, alt: alt, wrapOff: wrapOff}
	g.frames = make([]frameExp, len(chain)+1)
	for k := range g.frames {
		g.frames[k].Kind = g.kind(k)
	}
	main := g.newUnit()
	g.body(0, main, "")
	var b strings.Builder
	line := 1
	emit := func(u *unit) {
		u.start = line
		for _, l := range u.lines {
			b.WriteString(l)
			b.WriteString("\n")
			line++
		}
	}
	if alt {
		emit(&unit{lines: []string{"class E32 < Error; end"}})
	}
	for i := len(g.units) - 1; i >= 0; i-- { // callees first, the top level last
		emit(g.units[i])
		if i > 0 {
			emit(&unit{lines: []string{""}})
		}
	}
	for k := range g.frames {
		g.frames[k].Line = g.frames[k].unit.start + g.frames[k].rel - 1
	}
	return b.String(), g.frames
}

// ---------------------------------------------------------------------------------------------
// running

type runRes struct {
	rejected bool
	diags    string
	panicSig string
	stack    string
	err      string
	out      string
	frames   []value.CallFrame
	traceStr string
}

func runProgram(src string) (res runRes) {
	elkrun.ResetRuntime()
	fn, cres := elkrun.Compile(src, &elkrun.Options{Name: fileName})
	if fn == nil {
		return runRes{rejected: cres.Rejected, diags: cres.Diags, panicSig: cres.PanicSig, stack: cres.Stack}
	}
	var out strings.Builder
	defer func() {
		if p := recover(); p != nil {
			st := string(debug.Stack())
			res = runRes{panicSig: engine.PanicSig(fmt.Sprint(p), st), stack: st, out: out.String()}
		}
	}()
	th := vm.New(vm.WithStdout(&out), vm.WithStderr(&out))
	_, err := th.InterpretTopLevel(fn)
	res.out = out.String()
	if err.IsUndefined() {
		return res
	}
	res.err = err.Inspect()
	if st := th.ErrStackTrace(); st != nil {
		res.frames = append(res.frames, (*st)...)
		res.traceStr = st.String()
	}
	return res
}

func nameMatches(funcName, simple string) bool {
	if !strings.HasSuffix(funcName, simple) {
		return false
	}
	rest := funcName[:len(funcName)-len(simple)]
	return rest == "" || strings.HasSuffix(rest, ":") || strings.HasSuffix(rest, ".") || strings.HasSuffix(rest, "#")
}

func kindName(k byte) string {
	switch k {
	case 'T':
		return "top-level"
	case 'M':
		return "method"
	case 'I':
		return "instance-method"
	case 'S':
		return "module-method"
	case 'C':
		return "closure"
	case 'N':
		return "native-callback-closure"
	case 'G':
		return "generator"
	case 'A':
		return "async"
	}
	return string(k)
}

func expString(exp []frameExp) string {
	var b strings.Builder
	for i, f := range exp {
		n := f.Name
		if n == "" {
			n = "(" + kindName(f.Kind) + ")"
		}
		fmt.Fprintf(&b, " %d: %s:%d, in %s\n", i, fileName, f.Line, n)
	}
	return b.String()
}

// compare returns "" when the trace lists exactly the expected frames, else (signature, explanation).
func compare(exp []frameExp, got []value.CallFrame) (string, string) {
	var own []value.CallFrame
	for _, f := range got {
		if f.FileName == fileName {
			own = append(own, f)
		}
	}
	matches := func(e frameExp, a value.CallFrame) bool {
		return a.LineNumber == e.Line && (e.Name == "" || nameMatches(a.FuncName, e.Name))
	}
	// frames of the chain listed in the wrong order? (every printed frame is an expected one, but not in chain order)
	{
		used := make([]bool, len(exp))
		idx := make([]int, 0, len(own))
		all := true
		for _, a := range own {
			found := -1
			for j, e := range exp {
				if !used[j] && matches(e, a) {
					found = j
					break
				}
			}
			if found < 0 {
				all = false
				break
			}
			used[found] = true
			idx = append(idx, found)
		}
		if all {
			for i := 1; i < len(idx); i++ {
				if idx[i] < idx[i-1] {
					s := i - 1 // start of the misplaced block of consecutive frames
					for s > 0 && idx[s-1] == idx[s]-1 {
						s--
					}
					return fmt.Sprintf("frames out of order: the frames from the %s frame inwards are listed before their callers", kindName(exp[idx[s]].Kind)),
						fmt.Sprintf("every printed frame is a frame of the chain, but expected frames %d..%d are printed before expected frame %d", idx[s], idx[i-1], idx[i])
				}
			}
		}
	}
	for i := 0; i < len(exp) || i < len(own); i++ {
		if i >= len(own) {
			if i == 0 {
				return "empty trace", "the trace has no frame of the program"
			}
			return fmt.Sprintf("frames missing from the trace: everything inside a %s frame", kindName(exp[i].Kind)),
				fmt.Sprintf("the trace ends after frame %d; missing: frame %d (%s) and deeper", i-1, i, kindName(exp[i].Kind))
		}
		if i >= len(exp) {
			return fmt.Sprintf("extra frame after the leaf (%s)", kindName(exp[len(exp)-1].Kind)), fmt.Sprintf("unexpected frame %d: %s:%d in %s", i, own[i].FileName, own[i].LineNumber, own[i].FuncName)
		}
		e, a := exp[i], own[i]
		if e.Name != "" && !nameMatches(a.FuncName, e.Name) {
			return fmt.Sprintf("wrong frame: expected the %s frame, found another function", kindName(e.Kind)),
				fmt.Sprintf("frame %d: expected function %s, found `%s`", i, e.Name, a.FuncName)
		}
		if a.LineNumber != e.Line {
			role := "call into " + kindName(exp[min(i+1, len(exp)-1)].Kind)
			if i == len(exp)-1 {
				role = "throw"
			}
			return "wrong line: " + role, fmt.Sprintf("frame %d (`%s`, a %s frame): line %d, expected %d", i, a.FuncName, kindName(e.Kind), a.LineNumber, e.Line)
		}
		if a.TailCallCounter != 0 {
			return fmt.Sprintf("tail-call elision reported for a non-tail call: %s frame", kindName(e.Kind)), fmt.Sprintf("frame %d reports %d optimised tail calls", i, a.TailCallCounter)
		}
	}
	return "", ""
}

// ---------------------------------------------------------------------------------------------
// enumeration

func chains(maxDepth int) []string {
	var out []string
	var rec func(p string)
	rec = func(p string) {
		if len(p) > 0 {
			out = append(out, p)
		}
		if len(p) == maxDepth {
			return
		}
		for _, k := range kinds {
			rec(p + string(k))
		}
	}
	// shortest first
	for d := 1; d <= maxDepth; d++ {
		for _, c := range allOfLen(d) {
			out = append(out, c)
		}
	}
	_ = rec
	return out
}

func allOfLen(d int) []string {
	if d == 0 {
		return []string{""}
	}
	var out []string
	for _, p := range allOfLen(d - 1) {
		for _, k := range kinds {
			out = append(out, p+string(k))
		}
	}
	return out
}

// fillerPatterns returns the filler vectors (one count per frame, top level first) used for a chain of depth d.
func fillerPatterns(d int, full bool) [][]int {
	n := d + 1
	if full {
		var out [][]int
		var rec func(p []int)
		rec = func(p []int) {
			if len(p) == n {
				out = append(out, append([]int(nil), p...))
				return
			}
			for c := 0; c <= 2; c++ {
				rec(append(p, c))
			}
		}
		rec(nil)
		return out
	}
	// covering set: constant vectors and three rotations of (0,1,2,…): every frame sees every count, every adjacent
	// pair of frames sees different counts in both orders; plus the all-wide vector (count 3: > 255 pool entries and
	// a call spread over two lines in every frame)
	var out [][]int
	{
		v := make([]int, n)
		for i := range v {
			v[i] = 3
		}
		out = append(out, v)
	}
	for c := 0; c <= 2; c++ {
		v := make([]int, n)
		for i := range v {
			v[i] = c
		}
		out = append(out, v)
	}
	for r := 0; r < 3; r++ {
		v := make([]int, n)
		for i := range v {
			v[i] = (i + r) % 3
		}
		out = append(out, v)
		w := make([]int, n)
		for i := range w {
			w[i] = (2*i + r + 1) % 3
		}
		out = append(out, w)
	}
	return dedup(out)
}

func dedup(vs [][]int) [][]int {
	seen := map[string]bool{}
	var out [][]int
	for _, v := range vs {
		k := fmt.Sprint(v)
		if !seen[k] {
			seen[k] = true
			out = append(out, v)
		}
	}
	return out
}

func main() {
	if f := os.Getenv("C32_DEBUG"); f != "" {
		debugChain(f)
		return
	}
	engine.Main(&engine.Spec{
		Prop:  "C32",
		Level: "exploration",
		Rule: "every call chain of depth ≤ 3 (quick) / ≤ 4 (thorough) over the frame kinds {method, instance method, module method, closure called with .()/.call, closure passed to the native ArrayList#map, generator consumed by for…in, async function awaited} " +
			"with an uncaught throw at the leaf; each chain × filler patterns (0–2 filler statements — a local declaration, a four-line literal — before every call site and the throw: a covering set of ≤ 9 vectors plus one all-wide vector (135 extra statements per frame, so that the 16 bit instruction forms are used, and calls spread over two lines); thorough: all 3^(d+1) vectors for depth ≤ 2) × 2 forms " +
			"(symbol thrown, .(), await | Error object thrown, .call(), await_sync); the call site of frame k (and the throw) is placed inside the construct number (pattern index + k) mod 7 of {plain, if, while, do/finally, continuation line, do/catch, switch}; one program per combination; a program is non-trivial when its chain crosses a closure, native, generator or promise boundary or has depth ≥ 2",
		Assume:           []string{"calls are never in tail position", "frames whose file is not the program file (native frames) are ignored", "names of closure frames and of the top-level frame are not asserted"},
		CaseTimeout:      3 * time.Minute,
		ThoroughDeadline: 28 * time.Minute,
		Setup:            func(c *engine.Ctx) { elkrun.Init() },
		Run:              run,
	})
}

func run(c *engine.Ctx) {
	maxDepth := 3
	if c.Thorough {
		maxDepth = 4
	}
	for _, ch := range chains(maxDepth) {
		ch := ch
		c.Case("chain/"+ch, func(r *engine.R) {
			pats := fillerPatterns(len(ch), c.Thorough && len(ch) <= 2)
			for _, alt := range []bool{false, true} {
				for pi, fv := range pats {
					wrapOff := pi % len(wraps)
					if alt {
						wrapOff = (pi + 3) % len(wraps)
					}
					checkProgram(r, ch, fv, alt, wrapOff)
				}
			}
		})
	}
}

func checkProgram(r *engine.R, ch string, fv []int, alt bool, wrapOff int) {
	src, exp := build(ch, fv, alt, wrapOff)
	res := runProgram(src)
	r.Eval(1)
	if len(ch) >= 2 || strings.ContainsAny(ch, "CNGA") {
		r.NT(1)
	}
	r.Sample(src)
	input := map[string]any{"chain": ch, "fillers": fv, "alt": alt, "wrap_offset": wrapOff, "source": src}
	switch {
	case res.panicSig != "":
		r.Outcome("go-panic")
		r.Violation("go panic while running a generated program: "+res.panicSig, fmt.Sprintf("chain %s fillers %v alt %v\n%s\n%s", ch, fv, alt, src, res.stack), input)
		return
	case res.rejected:
		// generator gap, not a statement about stack traces
		r.Outcome("rejected")
		r.Count("rejected_programs", 1)
		r.Note("rejected: chain " + ch + ": " + firstLine(res.diags))
		return
	case res.err == "":
		r.Outcome("no-error")
		r.Violation("program ended without the uncaught error (caller "+kindName(exp[len(exp)-2].Kind)+" leaf "+kindName(exp[len(exp)-1].Kind)+")",
			fmt.Sprintf("chain %s fillers %v alt %v: the throw at the leaf did not surface; stdout %q\n%s", ch, fv, alt, res.out, src), input)
		return
	}
	// outcome classes: verdict × the kinds of boundaries the chain crosses
	crossed := ""
	for _, k := range "CNGA" {
		if strings.ContainsRune(ch, k) {
			crossed += string(k)
		}
	}
	if crossed == "" {
		crossed = "methods-only"
	}
	sig, why := compare(exp, res.frames)
	if sig == "" {
		r.Outcome("trace-ok/" + crossed)
		return
	}
	r.Outcome("trace-wrong/" + crossed)
	r.Violation(sig, fmt.Sprintf("chain %s fillers %v alt %v: %s\nexpected frames of %s (outermost first):\n%sprinted trace:\n%s\nprogram:\n%s", ch, fv, alt, why, fileName, expString(exp), res.traceStr, numbered(src)), input)
}

func firstLine(s string) string {
	s = strings.TrimSpace(s)
	if i := strings.IndexByte(s, '\n'); i >= 0 {
		s = s[:i]
	}
	return s
}

func numbered(src string) string {
	var b strings.Builder
	for i, l := range strings.Split(strings.TrimRight(src, "\n"), "\n") {
		fmt.Fprintf(&b, "%3d  %s\n", i+1, l)
	}
	return b.String()
}

// debugChain: C32_DEBUG=<chain>[:<fillers digits>[:alt|-[:<wrap offset>]]] prints the generated program, the expectation and the trace.
func debugChain(arg string) {
	elkrun.Init()
	parts := strings.Split(arg, ":")
	ch := parts[0]
	fv := make([]int, len(ch)+1)
	if len(parts) > 1 {
		for i := range fv {
			if i < len(parts[1]) {
				fv[i] = int(parts[1][i] - '0')
			}
		}
	}
	alt := len(parts) > 2 && parts[2] == "alt"
	wrapOff := 0
	if len(parts) > 3 {
		fmt.Sscan(parts[3], &wrapOff)
	}
	src, exp := build(ch, fv, alt, wrapOff)
	fmt.Print(numbered(src))
	res := runProgram(src)
	fmt.Printf("rejected=%v %s\npanic=%s\nerr=%s\nout=%q\nexpected:\n%sgot:\n%s", res.rejected, res.diags, res.panicSig, res.err, res.out, expString(exp), res.traceStr)
	sig, why := compare(exp, res.frames)
	fmt.Printf("verdict: %q %s\n", sig, why)
}
