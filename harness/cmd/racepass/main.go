// racepass — free-running companion of the E1 (controlled scheduler) checks.
//
// Built with `go build -race` from /repo's working tree WITHOUT the scheduler overlay, it runs the same harness
// bodies (symbol-table operation configurations; the Elk scenario programs of C16/C25/C33; the checker programs
// of C11) on real goroutines, many rounds each, so that Go's race detector sees accesses that no scheduling
// point of the explorer separates. Race reports go to stderr and are parsed by engine.RacePass in the calling
// check; this program itself asserts nothing.
//
//	racepass symtab <rounds>
//	racepass elk <scenarios.json> <rounds>        scenarios: [{"name","src","pool_n","pool_q"}]
//	racepass checker <scenarios.json> <rounds>    scenarios: [{"name","src","limit"}]
package main

import (
	"encoding/json"
	"fmt"
	"io"
	"os"
	"strconv"
	"sync"
	"time"

	"github.com/elk-language/elk/types/checker"
	"github.com/elk-language/elk/value"
	"github.com/elk-language/elk/vm"

	"verifharness/elkrun"
)

type scen struct {
	Name  string `json:"name"`
	Src   string `json:"src"`
	PoolN int    `json:"pool_n"`
	PoolQ int    `json:"pool_q"`
	Limit int    `json:"limit"`
}

func main() {
	if len(os.Args) < 3 {
		fmt.Fprintln(os.Stderr, "usage: racepass symtab <rounds> | elk <file> <rounds> | checker <file> <rounds>")
		os.Exit(2)
	}
	switch os.Args[1] {
	case "symtab":
		rounds, _ := strconv.Atoi(os.Args[2])
		symtab(rounds)
	case "elk", "checker":
		var scs []scen
		b, err := os.ReadFile(os.Args[2])
		if err == nil {
			err = json.Unmarshal(b, &scs)
		}
		if err != nil {
			fmt.Fprintln(os.Stderr, "racepass:", err)
			os.Exit(2)
		}
		rounds := 20
		if len(os.Args) > 3 {
			rounds, _ = strconv.Atoi(os.Args[3])
		}
		if os.Args[1] == "elk" {
			elkScens(scs, rounds)
		} else {
			checkerScens(scs, rounds)
		}
	default:
		os.Exit(2)
	}
}

// ---- symbol table (C26): the same alphabet and configuration shapes as cmd/c26 ----

type op struct {
	kind int // 0 Add, 1 Get, 2 GetName
	name string
	id   int
}

var alphabet = []op{{0, "a", 0}, {0, "b", 0}, {1, "a", 0}, {2, "", 0}, {2, "", 1}}

func do(tab *value.SymbolTableStruct, o op) {
	switch o.kind {
	case 0:
		tab.Add(o.name)
	case 1:
		tab.Get(o.name)
	default:
		tab.GetName(value.Symbol(o.id))
	}
}

func seqs(n int) [][]op {
	if n == 0 {
		return [][]op{{}}
	}
	var out [][]op
	for _, s := range seqs(n - 1) {
		for _, o := range alphabet {
			out = append(out, append(append([]op{}, s...), o))
		}
	}
	return out
}

func hasAdd(s []op) bool {
	for _, o := range s {
		if o.kind == 0 {
			return true
		}
	}
	return false
}

func symtab(rounds int) {
	var cfgs [][][]op
	s2 := seqs(2)
	for i, a := range s2 {
		for j := i; j < len(s2); j++ {
			if hasAdd(a) || hasAdd(s2[j]) {
				cfgs = append(cfgs, [][]op{a, s2[j]})
			}
		}
	}
	s1 := seqs(1)
	for i := range s1 {
		for j := i; j < len(s1); j++ {
			for k := j; k < len(s1); k++ {
				if hasAdd(s1[i]) || hasAdd(s1[j]) || hasAdd(s1[k]) {
					cfgs = append(cfgs, [][]op{s1[i], s1[j], s1[k]})
				}
			}
		}
	}
	runs := 0
	for _, cfg := range cfgs {
		for r := 0; r < rounds; r++ {
			tab := value.NewSymbolTable()
			start := make(chan struct{})
			var wg sync.WaitGroup
			for _, ops := range cfg {
				ops := ops
				wg.Add(1)
				go func() {
					defer wg.Done()
					<-start
					for _, o := range ops {
						do(tab, o)
					}
				}()
			}
			close(start)
			wg.Wait()
			runs++
		}
	}
	fmt.Println("RUNS", runs)
}

// ---- Elk scenario programs on the real VM (C16 / C25 / C33) ----

func elkScens(scs []scen, rounds int) {
	elkrun.Init()
	vm.INIT_VALUE_STACK_SIZE = 1024
	vm.CALL_STACK_SIZE = 64
	runs := 0
	for _, sc := range scs {
		fn, res := elkrun.Compile(sc.Src, nil)
		if fn == nil {
			fmt.Println("SKIP", sc.Name, "does not compile:", res.Diags, res.Panic)
			continue
		}
		hung := false
		for r := 0; r < rounds && !hung; r++ {
			done := make(chan struct{})
			go func() {
				defer close(done)
				defer func() { recover() }()
				opts := []vm.Option{vm.WithStdout(io.Discard), vm.WithStderr(io.Discard)}
				if sc.PoolN > 0 {
					tp := vm.NewThreadPool(sc.PoolN, sc.PoolQ, vm.WithStdout(io.Discard), vm.WithStderr(io.Discard))
					defer tp.Close()
					opts = append(opts, vm.WithThreadPool(tp))
				}
				v := vm.New(opts...)
				v.InterpretTopLevel(fn)
			}()
			select {
			case <-done:
				runs++
			case <-time.After(60 * time.Second):
				// not a verdict of this pass (deadlocks are decided by the exhaustive exploration)
				fmt.Println("SKIP", sc.Name, "round did not finish within 60s; the pass stops here (its goroutines are still alive: resetting the runtime under them would race)")
				hung = true
			}
		}
		if hung {
			break
		}
		elkrun.ResetRuntime()
	}
	fmt.Println("RUNS", runs)
}

// ---- parallel method checking (C11) ----

func checkerScens(scs []scen, rounds int) {
	elkrun.Init()
	runs := 0
	for _, sc := range scs {
		for r := 0; r < rounds; r++ {
			if sc.Limit > 0 {
				checker.MethodCheckConcurrencyLimit = sc.Limit
			}
			func() {
				defer func() { recover() }()
				elkrun.Compile(sc.Src, nil)
			}()
			elkrun.ResetRuntime()
			runs++
		}
	}
	fmt.Println("RUNS", runs)
}
