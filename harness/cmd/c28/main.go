// C28 — std headers and native implementations agree.
//
// Walks the type environment built from the headers (checker.NewGlobalEnvironment) for every class, mixin,
// module and interface under Std, and for every declared method builds Elk call expressions: a receiver from
// a per-type literal pool (generic type parameters bound to Int/String), arguments from per-type pools, one
// call per admissible arity (required … required+optional; rest parameters get no arguments) × argument tuples.
// Every call is type-checked as its own item (a rejection is a pool gap, counted, not a violation), run in a VM
// thread, and its result value (or the value it threw) is handed back to Go in a list and inspected there:
//   - the call must not raise NoMethodError / a wrong-argument-count error / a Go panic;
//   - the result must be an instance of the declared return type (classes, mixins, unions, nilable, bool, literal
//     types, `self`; generic types are checked for the outer class only; interfaces for method presence; returns
//     typed by a method-level type parameter are not decidable and counted);
//   - a thrown value must be an instance of the declared throw type or of Std::Error (an unchecked runtime error).
package main

import (
	"context"
	"fmt"
	"os"
	"os/exec"
	"regexp"
	"runtime/debug"
	"sort"
	"strconv"
	"strings"
	"syscall"
	"time"

	"github.com/elk-language/elk/bitfield"
	"github.com/elk-language/elk/position/diagnostic"
	"github.com/elk-language/elk/types"
	"github.com/elk-language/elk/types/checker"
	"github.com/elk-language/elk/value"
	"github.com/elk-language/elk/vm"

	"verifharness/elkrun"
	"verifharness/engine"
)

var env *types.GlobalEnvironment

// ---------------------------------------------------------------------------------------------------------
// literal pools

// pool maps the full name of a class/mixin/interface to expressions whose static type is (a subtype of) it.
var pool = map[string][]string{
	"Std::Int":      {"3", "0", "(-7)", "1180591620717411303424"},
	"Std::Float":    {"1.5", "0.0", "(-2.25)", "1e30"},
	"Std::BigFloat": {"1.5bf", "0.0bf", "(-2.25bf)"},
	"Std::Float64":  {"1.5f64", "0.0f64", "(-2.25f64)"},
	"Std::Float32":  {"1.5f32", "0.0f32", "(-2.25f32)"},
	"Std::Int64":    {"3i64", "0i64", "(-7i64)"},
	"Std::Int32":    {"3i32", "0i32", "(-7i32)"},
	"Std::Int16":    {"3i16", "0i16", "(-7i16)"},
	"Std::Int8":     {"3i8", "0i8", "(-7i8)"},
	"Std::UInt64":   {"3u64", "0u64", "200u64"},
	"Std::UInt32":   {"3u32", "0u32", "200u32"},
	"Std::UInt16":   {"3u16", "0u16", "200u16"},
	"Std::UInt8":    {"3u8", "0u8", "200u8"},
	"Std::UInt":     {"3u", "0u", "200u"},
	"Std::String":   {`"abc"`, `"12"`, `""`, `"héllo wörld"`},
	"Std::Char":     {"`a`", "`ż`"},
	"Std::Symbol":   {":foo", `:"s y"`},
	"Std::Bool":     {"true", "false"},
	"Std::True":     {"true"},
	"Std::False":    {"false"},
	"Std::Nil":      {"nil"},
	"Std::Regex":    {"%/a+b/", "%/x/i"},
	"Std::Value":    {"3", `"abc"`},
	"Std::Object":   {`::Std::Error("boom")`},
	"Std::Error":    {`::Std::Error("boom")`},

	// the literals after the first three are element kinds the compiler stores unboxed (specialised native lists)
	"Std::ArrayList":  {"[1, 2, 3]", `["a", "b"]`, "::Std::ArrayList::[::Std::Int]()", "[1.5, 2.5]", "[1u8, 2u8]", "[:a, :b]"},
	"Std::ArrayTuple": {"%[1, 2, 3]", `%["a", "b"]`, "%[1.5, 2.5]", "%[1u8, 2u8]", "%[:a, :b]"},
	"Std::HashMap":    {`{ "a" => 1, "b" => 2 }`, `{ 1 => "x" }`},
	"Std::HashRecord": {`%{ "a" => 1, "b" => 2 }`, `%{ 1 => "x" }`},
	"Std::HashSet":    {"^[1, 2, 3]", `^["a", "b"]`},
	"Std::Pair":       {`::Std::Pair(1, "a")`, `::Std::Pair("k", 2)`},

	"Std::ClosedRange":          {"1...5", `"a"..."c"`},
	"Std::OpenRange":            {"1<.<5", "1.0<.<2.5"},
	"Std::LeftOpenRange":        {"1<..5", "1.0<..2.5"},
	"Std::RightOpenRange":       {"1..<5", "1.0..<2.5"},
	"Std::BeginlessClosedRange": {"...5", "...2.5"},
	"Std::BeginlessOpenRange":   {"..<5", "..<2.5"},
	"Std::EndlessClosedRange":   {"1...", "1.5..."},
	"Std::EndlessOpenRange":     {"1<..", "1.5<.."},

	"Std::ArrayList::Iterator":          {"[1, 2, 3].iter", "::Std::ArrayList::[::Std::Int]().iter"},
	"Std::ArrayTuple::Iterator":         {"%[1, 2, 3].iter"},
	"Std::HashMap::Iterator":            {`{ "a" => 1 }.iter`},
	"Std::HashRecord::Iterator":         {`%{ "a" => 1 }.iter`},
	"Std::HashSet::Iterator":            {"^[1, 2].iter"},
	"Std::Pair::Iterator":               {`::Std::Pair(1, 2).iter`},
	"Std::ClosedRange::Iterator":        {"(1...3).iter"},
	"Std::OpenRange::Iterator":          {"(1<.<4).iter"},
	"Std::LeftOpenRange::Iterator":      {"(1<..3).iter"},
	"Std::RightOpenRange::Iterator":     {"(1..<3).iter"},
	"Std::EndlessClosedRange::Iterator": {"(1...).iter"},
	"Std::EndlessOpenRange::Iterator":   {"(1<..).iter"},
	"Std::Int::Iterator":                {"3.iter"},
	"Std::String::CharIterator":         {`"ab".iter`, `"".char_iter`},
	"Std::String::ByteIterator":         {`"ab".byte_iter`},
	"Std::String::GraphemeIterator":     {`"ab".grapheme_iter`},

	"Std::Date":           {"::Std::Date(2024, 2, 29)", "::Std::Date(1999, 12, 31)"},
	"Std::Time":           {"::Std::Time(13, 45, 7)", "::Std::Time(0, 0, 0)"},
	"Std::DateTime":       {"::Std::DateTime(2024, 2, 29, 13, 45, 7)", "::Std::DateTime(1999, 12, 31, 23, 59, 59)"},
	"Std::Date::Span":     {"::Std::Date::Span(1, 2, 3)", "40.days"},
	"Std::Time::Span":     {"::Std::Time::Span(1, 30, 15)", "90.seconds"},
	"Std::DateTime::Span": {"::Std::DateTime::Span(1, 2, 3, 4, 5, 6)", "::Std::DateTime::Span(0, 0, 2, 3)"},
	"Std::Duration":       {"::Std::Time::Span(1, 30, 15)", "::Std::Date::Span(1, 2, 3)"},
	"Std::Timezone":       {"::Std::Timezone::UTC", `::Std::Timezone["Europe/Warsaw"]`},

	"Std::Channel":              {"::Std::Channel::[::Std::Int](2)"},
	"Std::ReadChannel":          {"::Std::Channel::[::Std::Int](2).readonly"},
	"Std::WriteChannel":         {"::Std::Channel::[::Std::Int](2).writeonly"},
	"Std::Promise":              {"::Std::Promise.resolved(3)"},
	"Std::Result":               {"::Std::Result.ok(3)", `::Std::Result.err(::Std::Error("bad"))`},
	"Std::Box":                  {"::Std::Box(3)"},
	"Std::ImmutableBox":         {"::Std::ImmutableBox(3)"},
	"Std::Weak":                 {`::Std::Weak(::Std::ImmutableBox("abc"))`},
	"Std::Sync::Mutex":          {"::Std::Sync::Mutex()"},
	"Std::Sync::RWMutex":        {"::Std::Sync::RWMutex()"},
	"Std::Sync::ROMutex":        {"::Std::Sync::RWMutex().to_read_only"},
	"Std::Sync::WaitGroup":      {"::Std::Sync::WaitGroup()", "::Std::Sync::WaitGroup(2)"},
	"Std::Sync::Once":           {"::Std::Sync::Once()"},
	"Std::Aborter":              {"::Std::Aborter()"},
	"Std::ThreadPool":           {"::Std::ThreadPool(1, 2)"},
	"Std::Closure":              {"|| -> 1"},
	"Std::Class":                {"::Std::String", "::Std::Int"},
	"Std::Mixin":                {"::Std::Tuple"},
	"Std::Module":               {"::Std::Kernel"},
	"Std::Interface":            {"::Std::Inspectable"},
	"Std::StackTrace":           {"::Std::Debug.stack_trace"},
	"Std::CallFrame":            {"::Std::Debug.stack_trace[0]"},
	"Std::FS::Path":             {`::Std::FS::Path("/tmp/a/b.txt")`, `::Std::FS::Path("rel/c")`},
	"Std::String::Position":     {"::Std::String::Position(0, 1, 1)"},
	"Std::String::Span":         {"::Std::String::Span(::Std::String::Position(0, 1, 1), ::Std::String::Position(2, 1, 3))"},
	"Std::FS::Location":         {`::Std::FS::Location(::Std::FS::Path("a.elk"), ::Std::String::Span(::Std::String::Position(0, 1, 1), ::Std::String::Position(2, 1, 3)))`},
	"Std::Diagnostic":           {`::Std::Diagnostic("msg", ::Std::FS::Location(::Std::FS::Path("a.elk"), ::Std::String::Span(::Std::String::Position(0, 1, 1), ::Std::String::Position(2, 1, 3))))`},
	"Std::DiagnosticList":       {"::Std::DiagnosticList()"},
	"Std::Sync::DiagnosticList": {"::Std::Sync::DiagnosticList()"},
	"Std::Elk::Token":           {`::Std::Elk::Lexer.lex("1 + foo")[0]`},

	"Std::String::Convertible": {`"abc"`, "3", ":foo"},
	"Std::Inspectable":         {"3", `"abc"`},
	"Std::Hashable":            {"3", `"abc"`},
	"Std::Colorizer":           {},

	// AST: mixins are served by a few concrete node classes
	"Std::Elk::AST::Node":                        {`::Std::Elk::AST::IntLiteralNode("1")`, `::Std::Elk::AST::NilLiteralNode()`},
	"Std::Elk::AST::ExpressionNode":              {`::Std::Elk::AST::IntLiteralNode("1")`, `::Std::Elk::AST::NilLiteralNode()`, `::Std::Elk::AST::PublicIdentifierNode("foo")`},
	"Std::Elk::AST::StatementNode":               {`::Std::Elk::AST::ExpressionStatementNode(::Std::Elk::AST::IntLiteralNode("1"))`},
	"Std::Elk::AST::PatternNode":                 {`::Std::Elk::AST::IntLiteralNode("1")`, `::Std::Elk::AST::PublicIdentifierNode("foo")`},
	"Std::Elk::AST::PatternExpressionNode":       {`::Std::Elk::AST::IntLiteralNode("1")`},
	"Std::Elk::AST::LiteralPatternNode":          {`::Std::Elk::AST::IntLiteralNode("1")`},
	"Std::Elk::AST::TypeNode":                    {`::Std::Elk::AST::PublicConstantNode("Foo")`, `::Std::Elk::AST::NilLiteralNode()`},
	"Std::Elk::AST::ComplexConstantNode":         {`::Std::Elk::AST::PublicConstantNode("Foo")`},
	"Std::Elk::AST::ConstantNode":                {`::Std::Elk::AST::PublicConstantNode("Foo")`},
	"Std::Elk::AST::IdentifierNode":              {`::Std::Elk::AST::PublicIdentifierNode("foo")`, `::Std::Elk::AST::PrivateIdentifierNode("_foo")`},
	"Std::Elk::AST::InstanceVariableNode":        {`::Std::Elk::AST::PublicInstanceVariableNode("foo")`},
	"Std::Elk::AST::PrivateIdentifierNode":       {`::Std::Elk::AST::PrivateIdentifierNode("_foo")`},
	"Std::Elk::AST::PrivateConstantNode":         {`::Std::Elk::AST::PrivateConstantNode("_Foo")`},
	"Std::Elk::AST::StringLiteralNode":           {`::Std::Elk::AST::DoubleQuotedStringLiteralNode("foo")`},
	"Std::Elk::AST::SimpleStringLiteralNode":     {`::Std::Elk::AST::DoubleQuotedStringLiteralNode("foo")`},
	"Std::Elk::AST::SymbolLiteralNode":           {`::Std::Elk::AST::SimpleSymbolLiteralNode("foo")`},
	"Std::Elk::AST::NamedArgumentNode":           {`::Std::Elk::AST::NamedCallArgumentNode(::Std::Elk::AST::PublicIdentifierNode("foo"), ::Std::Elk::AST::IntLiteralNode("1"))`},
	"Std::Elk::AST::ParameterNode":               {`::Std::Elk::AST::FormalParameterNode(::Std::Elk::AST::PublicIdentifierNode("foo"), 0u8)`},
	"Std::Elk::AST::TypeParameterNode":           {`::Std::Elk::AST::VariantTypeParameterNode("T")`},
	"Std::Elk::AST::UsingEntryNode":              {`::Std::Elk::AST::PublicConstantNode("Foo")`},
	"Std::Elk::AST::UsingSubentryNode":           {`::Std::Elk::AST::PublicConstantNode("Foo")`},
	"Std::Elk::AST::StructBodyStatementNode":     {`::Std::Elk::AST::ParameterStatementNode(::Std::Elk::AST::AttributeParameterNode(::Std::Elk::AST::PublicIdentifierNode("foo")))`},
	"Std::Elk::AST::IntCollectionContentNode":    {`::Std::Elk::AST::IntLiteralNode("1")`},
	"Std::Elk::AST::WordCollectionContentNode":   {`::Std::Elk::AST::RawStringLiteralNode("a")`},
	"Std::Elk::AST::SymbolCollectionContentNode": {`::Std::Elk::AST::SimpleSymbolLiteralNode("a")`},
	"Std::Elk::AST::StringLiteralContentNode":    {`::Std::Elk::AST::StringLiteralContentSectionNode("a")`},
	"Std::Elk::AST::RegexLiteralContentNode":     {`::Std::Elk::AST::RegexLiteralContentSectionNode("a")`},
	"Std::Elk::AST::RegexLiteralNode":            {`::Std::Elk::AST::UninterpolatedRegexLiteralNode("a")`},
}

// bindings of class-level type parameters for generic receivers, chosen to agree with the pool literals
// (index = position in the pool list); parameter names are those of the headers.
var recvBind = map[string][]map[string]string{
	"Std::ArrayList":            {{"Val": "Std::Int"}, {"Val": "Std::String"}, {"Val": "Std::Int"}, {"Val": "Std::Float"}, {"Val": "Std::UInt8"}, {"Val": "Std::Symbol"}},
	"Std::ArrayTuple":           {{"Val": "Std::Int"}, {"Val": "Std::String"}, {"Val": "Std::Float"}, {"Val": "Std::UInt8"}, {"Val": "Std::Symbol"}},
	"Std::HashMap":              {{"Key": "Std::String", "Value": "Std::Int"}, {"Key": "Std::Int", "Value": "Std::String"}},
	"Std::HashRecord":           {{"Key": "Std::String", "Value": "Std::Int"}, {"Key": "Std::Int", "Value": "Std::String"}},
	"Std::HashSet":              {{"Val": "Std::Int"}, {"Val": "Std::String"}},
	"Std::Pair":                 {{"Key": "Std::Int", "Value": "Std::String"}, {"Key": "Std::String", "Value": "Std::Int"}},
	"Std::ClosedRange":          {{"Val": "Std::Int"}, {"Val": "Std::String"}},
	"Std::OpenRange":            {{"Val": "Std::Int"}, {"Val": "Std::Float"}},
	"Std::LeftOpenRange":        {{"Val": "Std::Int"}, {"Val": "Std::Float"}},
	"Std::RightOpenRange":       {{"Val": "Std::Int"}, {"Val": "Std::Float"}},
	"Std::BeginlessClosedRange": {{"Val": "Std::Int"}, {"Val": "Std::Float"}},
	"Std::BeginlessOpenRange":   {{"Val": "Std::Int"}, {"Val": "Std::Float"}},
	"Std::EndlessClosedRange":   {{"Val": "Std::Int"}, {"Val": "Std::Float"}},
	"Std::EndlessOpenRange":     {{"Val": "Std::Int"}, {"Val": "Std::Float"}},
	"Std::String::CharIterator": {{"Val": "Std::Char"}, {"Val": "Std::Char"}},
	"Std::Result":               {{"Val": "Std::Int", "Err": "Std::Error"}, {"Val": "Std::Int", "Err": "Std::Error"}},
	"Std::Weak":                 {{"Val": "Std::String"}},
	"Std::HashMap::Iterator":    {{"Key": "Std::String", "Value": "Std::Int"}},
	"Std::HashRecord::Iterator": {{"Key": "Std::String", "Value": "Std::Int"}},
	"Std::Pair::Iterator":       {{"Key": "Std::Int", "Value": "Std::Int"}},
}

// default binding of any other type parameter name (class level: the pool literals use Int elements)
const defaultBind = "Std::Int"

// ---------------------------------------------------------------------------------------------------------
// exclusions (printed into the evidence)

type exclusion struct {
	re     *regexp.Regexp // matched against the method id, e.g. "Std::Channel#pop"
	reason string
}

var exclusions = []exclusion{
	{regexp.MustCompile(`^Std::(Channel|ReadChannel)#(pop|next|<<@)$`), "blocks by design on the generated (empty, open) channel"},
	{regexp.MustCompile(`^Std::Sync::WaitGroup#wait$`), "blocks by design when the counter of the generated wait group is positive"},
	{regexp.MustCompile(`^Std::Kernel\.(sleep|timeout)$`), "sleeps/timeouts: wall-clock behaviour"},
	{regexp.MustCompile(`^Std::Kernel\.exit$`), "terminates the process"},
	{regexp.MustCompile(`^Std::Aborter\.(deadline|timeout)$`), "starts wall-clock timers"},
	{regexp.MustCompile(`^Std::Debug\.`), "debugger/profiler entry points: touch the outside world (files, process-wide profiler) or dump VM internals"},
	{regexp.MustCompile(`^Std::Runtime\.gc$`), "process-wide side effect (forces a Go GC)"},
	{regexp.MustCompile(`^Std::FS::Path#to_absolute$`), "depends on the process working directory (outside world)"},
	{regexp.MustCompile(`^Std::ThreadPool`), "creates OS worker threads that outlive the call"},
	{regexp.MustCompile(`^Std::Promise\.wait$`), "awaits promises: blocks on never-settling input"},
	{regexp.MustCompile(`^Std::(DateTime|Date|Time)\.now$`), "reads the wall clock"},
	{regexp.MustCompile(`^Std::Macro\.eval_node$`), "runs the type checker and a nested VM on the node"},
}

func excluded(id string) string {
	for _, e := range exclusions {
		if e.re.MatchString(id) {
			return e.reason
		}
	}
	return ""
}

// ---------------------------------------------------------------------------------------------------------
// environment walk

type target struct {
	ns        types.Namespace // declaring namespace
	singleton bool            // the method is declared on the namespace's singleton class (or the namespace is a module)
	key       string          // key in the method map (overloads: "name@k")
	m         *types.Method
	id        string
}

func walk(ns types.Namespace, seen map[string]bool, out *[]types.Namespace) {
	if seen[ns.Name()] {
		return
	}
	seen[ns.Name()] = true
	*out = append(*out, ns)
	var names []string
	for n := range ns.Subtypes() {
		names = append(names, n.String())
	}
	sort.Strings(names)
	for _, n := range names {
		c, _ := ns.SubtypeString(n)
		if sub, ok := c.Type.(types.Namespace); ok && strings.HasPrefix(sub.Name(), ns.Name()+"::") {
			walk(sub, seen, out)
		}
	}
}

func allNamespaces() []types.Namespace {
	var all []types.Namespace
	walk(env.Std(), map[string]bool{}, &all)
	return all
}

func sortedMethodKeys(ns types.Namespace) []string {
	var ks []string
	for n := range ns.Methods() {
		ks = append(ks, n.String())
	}
	sort.Strings(ks)
	return ks
}

func targets(all []types.Namespace) []target {
	var ts []target
	for _, ns := range all {
		_, isModule := ns.(*types.Module)
		for _, k := range sortedMethodKeys(ns) {
			m := ns.MethodString(k)
			sep := "#"
			if isModule {
				sep = "."
			}
			ts = append(ts, target{ns: ns, singleton: isModule, key: k, m: m, id: ns.Name() + sep + k})
		}
		if sg := ns.Singleton(); sg != nil && !isModule {
			for _, k := range sortedMethodKeys(sg) {
				m := sg.MethodString(k)
				ts = append(ts, target{ns: ns, singleton: true, key: k, m: m, id: ns.Name() + "." + k})
			}
		}
	}
	return ts
}

var overloadRe = regexp.MustCompile(`^(.+)@\d+$`)

// callName strips the overload suffix ("name@k") from a method map key (unary operators end in a bare "@").
func callName(t target) string {
	if m := overloadRe.FindStringSubmatch(t.key); m != nil {
		return m[1]
	}
	return t.key
}

// ---------------------------------------------------------------------------------------------------------
// expression generation

type gctx struct {
	bind  map[string]types.Type // type parameter name → concrete type
	self  []string              // receiver expressions, for parameters typed `self`
	depth int
}

func named(name string) types.Type {
	parts := strings.Split(name, "::")
	var ns types.Namespace = env.Root
	for _, p := range parts {
		c, ok := ns.SubtypeString(p)
		if !ok {
			return nil
		}
		n, ok := c.Type.(types.Namespace)
		if !ok {
			return c.Type
		}
		ns = n
	}
	return ns
}

// first returns a copy of the first n elements (a copy: callers append to the result, and the pools are shared).
func first(xs []string, n int) []string {
	if len(xs) > n {
		xs = xs[:n]
	}
	return append([]string(nil), xs...)
}

func dedupe(xs []string) []string {
	seen := map[string]bool{}
	var out []string
	for _, x := range xs {
		if !seen[x] {
			seen[x] = true
			out = append(out, x)
		}
	}
	return out
}

var stdRe = regexp.MustCompile(`(^|[^:\w])Std::`)

// typeSrc renders a type in source syntax (absolute constant paths).
func typeSrc(t types.Type) string {
	return stdRe.ReplaceAllString(types.Inspect(t), "${1}::Std::")
}

func (c *gctx) deeper() *gctx {
	d := *c
	d.depth++
	return &d
}

func (c *gctx) resolve(t types.Type) types.Type {
	for i := 0; i < 5; i++ {
		switch tt := t.(type) {
		case *types.NamedType:
			t = tt.Type
		case *types.TypeParameter:
			if b, ok := c.bind[tt.Name.String()]; ok {
				t = b
			} else {
				return named(defaultBind)
			}
		default:
			return t
		}
	}
	return t
}

func nsName(t types.Type) string {
	switch tt := t.(type) {
	case *types.Generic:
		return tt.Namespace.Name()
	case types.Namespace:
		return tt.Name()
	}
	return ""
}

// implementers of mixins/interfaces that have no pool entry: filled lazily from the environment
var implCache = map[string][]string{}

func gen(t types.Type, c *gctx) []string {
	if c.depth > 4 || t == nil {
		return nil
	}
	switch tt := t.(type) {
	case *types.NamedType:
		return gen(tt.Type, c)
	case *types.TypeParameter:
		if b, ok := c.bind[tt.Name.String()]; ok {
			return gen(b, c.deeper())
		}
		if tt.UpperBound != nil {
			if _, isAny := tt.UpperBound.(types.Any); !isAny {
				if r := gen(tt.UpperBound, c.deeper()); len(r) > 0 {
					return r
				}
			}
		}
		return gen(named(defaultBind), c.deeper())
	case *types.Union:
		var out []string
		for _, e := range tt.Elements {
			out = append(out, first(gen(e, c.deeper()), 2)...)
		}
		return dedupe(out)
	case *types.Nilable:
		return dedupe(append(first(gen(tt.Type, c.deeper()), 2), "nil"))
	case types.Any:
		return []string{"3", `"abc"`, "nil", ":foo"}
	case types.Bool:
		return []string{"true", "false"}
	case types.True:
		return []string{"true"}
	case types.False:
		return []string{"false"}
	case types.Nil:
		return []string{"nil"}
	case types.Void:
		return []string{"nil"}
	case types.Self:
		return c.self
	case *types.Callable:
		return genClosure(tt, c)
	case *types.SingletonClass:
		return []string{"::" + tt.AttachedObject.Name()}
	case *types.Generic:
		return genGeneric(tt, c)
	case *types.Class, *types.Mixin, *types.Interface, *types.Module:
		return genNamed(t.(types.Namespace), c)
	case *types.Not, *types.Intersection:
		return nil
	}
	if t.IsLiteral() {
		return []string{types.Inspect(t)}
	}
	return nil
}

func genNamed(ns types.Namespace, c *gctx) []string {
	name := ns.Name()
	if p, ok := pool[name]; ok {
		return p
	}
	if _, ok := ns.(*types.Module); ok {
		return []string{"::" + name}
	}
	if cls, ok := ns.(*types.Class); ok && !cls.IsAbstract() {
		if e := construct(cls, c); e != "" {
			return []string{e}
		}
		return nil
	}
	// a mixin/interface/abstract class without a pool entry: instances of the first classes that have it as a parent
	if r, ok := implCache[name]; ok {
		return r
	}
	implCache[name] = nil // cycle guard
	var out []string
	for _, cand := range allNS {
		cls, ok := cand.(*types.Class)
		if !ok || cls.IsAbstract() || cls.Name() == name {
			continue
		}
		for p := range types.Parents(cls) {
			if p.Name() == name {
				if e := first(genNamed(cls, c.deeper()), 1); len(e) > 0 {
					out = append(out, e...)
				}
				break
			}
		}
		if len(out) >= 2 {
			break
		}
	}
	implCache[name] = out
	return out
}

var allNS []types.Namespace

// findInit returns the constructor a class inherits.
func findInit(cls types.Namespace) *types.Method {
	for p := range types.Parents(cls) {
		if m := p.MethodString("#init"); m != nil {
			return m
		}
	}
	return nil
}

// construct synthesises a constructor call with the required arguments only.
func construct(cls *types.Class, c *gctx) string {
	if c.depth > 3 {
		return ""
	}
	init := findInit(cls)
	var args []string
	if init != nil {
		for _, p := range init.Params {
			if p.Kind != types.NormalParameterKind {
				continue
			}
			a := gen(p.Type, c.deeper())
			if len(a) == 0 {
				return ""
			}
			// numeric literal nodes validate their text: give them digits rather than the first String value
			if strings.HasSuffix(cls.Name(), "LiteralNode") && p.Name.String() == "value" && nsName(p.Type) == "Std::String" &&
				regexp.MustCompile(`(Int|Float)\d*LiteralNode$`).MatchString(cls.Name()) {
				a = []string{`"12"`}
			}
			args = append(args, a[0])
		}
	}
	return "::" + cls.Name() + "(" + strings.Join(args, ", ") + ")"
}

func typeArg(g *types.Generic, i int, c *gctx) types.Type {
	if i >= len(g.ArgumentOrder) {
		return named(defaultBind)
	}
	a := g.ArgumentMap[g.ArgumentOrder[i]]
	if a == nil {
		return named(defaultBind)
	}
	return a.Type
}

func genGeneric(g *types.Generic, c *gctx) []string {
	name := g.Namespace.Name()
	d := c.deeper()
	elems := func(i int) []string {
		t := typeArg(g, i, c)
		if _, never := t.(types.Never); never {
			return nil
		}
		return first(gen(t, d), 2)
	}
	list := func(open, close string, i int) []string {
		e := elems(i)
		if len(e) == 0 {
			return nil
		}
		out := []string{open + strings.Join(e, ", ") + close}
		if len(e) > 1 {
			out = append(out, open+e[1]+close)
		}
		return out
	}
	kv := func(open string) []string {
		k, v := elems(0), elems(1)
		if len(k) == 0 || len(v) == 0 {
			return nil
		}
		return []string{open + k[0] + " => " + v[0] + " }"}
	}
	switch name {
	case "Std::ArrayTuple", "Std::Tuple", "Std::ImmutableCollection", "Std::Iterable", "Std::PrimitiveIterable", "Std::Container":
		return list("%[", "]", 0)
	case "Std::ArrayList", "Std::List", "Std::Collection":
		return list("[", "]", 0)
	case "Std::HashSet", "Std::Set", "Std::ImmutableSet":
		return list("^[", "]", 0)
	case "Std::HashMap", "Std::Map":
		return kv("{ ")
	case "Std::HashRecord", "Std::Record":
		return kv("%{ ")
	case "Std::Pair":
		k, v := elems(0), elems(1)
		if len(k) == 0 || len(v) == 0 {
			return nil
		}
		return []string{"::Std::Pair(" + k[0] + ", " + v[0] + ")"}
	case "Std::Comparable", "Std::Incrementable", "Std::Decrementable":
		return elems(0)
	case "Std::Iterator", "Std::ResettableIterator":
		e := elems(0)
		if len(e) == 0 {
			return nil
		}
		return []string{"[" + strings.Join(e, ", ") + "].iter"}
	case "Std::Promise":
		e := elems(0)
		if len(e) == 0 {
			return nil
		}
		return []string{"::Std::Promise.resolved(" + e[0] + ")"}
	case "Std::Result":
		var out []string
		if e := elems(0); len(e) > 0 {
			out = append(out, "::Std::Result.ok("+e[0]+")")
		}
		if e := elems(1); len(e) > 0 {
			out = append(out, "::Std::Result.err("+e[0]+")")
		}
		return out
	case "Std::Box", "Std::ImmutableBox", "Std::Weak":
		e := elems(0)
		if len(e) == 0 {
			return nil
		}
		return []string{"::" + name + "(" + e[0] + ")"}
	case "Std::Range", "Std::ClosedRange", "Std::IterableRange":
		return rangeLit(g, c, "%s...%s")
	case "Std::OpenRange":
		return rangeLit(g, c, "%s<.<%s")
	case "Std::LeftOpenRange":
		return rangeLit(g, c, "%s<..%s")
	case "Std::RightOpenRange":
		return rangeLit(g, c, "%s..<%s")
	case "Std::EndlessClosedRange":
		return rangeLit(g, c, "%[1]s...")
	case "Std::EndlessOpenRange":
		return rangeLit(g, c, "%[1]s<..")
	case "Std::BeginlessClosedRange":
		return rangeLit(g, c, "...%[2]s")
	case "Std::BeginlessOpenRange":
		return rangeLit(g, c, "..<%[2]s")
	}
	return genNamed(g.Namespace, c)
}

// rangeLit builds a range literal over the element type (ordered pool values per type).
func rangeLit(g *types.Generic, c *gctx, format string) []string {
	t := c.resolve(typeArg(g, 0, c))
	var lo, hi string
	switch nsName(t) {
	case "Std::Int":
		lo, hi = "1", "4"
	case "Std::Float":
		lo, hi = "1.0", "2.5"
	case "Std::String":
		lo, hi = `"a"`, `"c"`
	case "Std::Char":
		lo, hi = "`a`", "`c`"
	default:
		return nil
	}
	lit := fmt.Sprintf(format, lo, hi)
	if i := strings.Index(lit, "%!(EXTRA"); i >= 0 {
		lit = lit[:i]
	}
	return []string{"(" + lit + ")"}
}

func genClosure(cl *types.Callable, c *gctx) []string {
	m := cl.Body
	var names []string
	for i, p := range m.Params {
		if p.Kind != types.NormalParameterKind {
			return nil
		}
		names = append(names, fmt.Sprintf("p%d", i))
	}
	head := "|" + strings.Join(names, ", ") + "| -> "
	if len(names) == 0 {
		head = "|| -> "
	}
	ret := m.ReturnType
	var bodies []string
	switch rt := ret.(type) {
	case types.Void, nil:
		bodies = []string{"nil"}
	case types.Bool:
		bodies = []string{"true", "false"}
	case *types.TypeParameter:
		if _, bound := c.bind[rt.Name.String()]; bound {
			bodies = first(gen(rt, c.deeper()), 1)
		} else if len(names) > 0 {
			bodies = []string{names[len(names)-1]}
		} else {
			bodies = []string{"3"}
		}
	default:
		// a generic type mentioning unbound method-level parameters: build from the closure's own parameters when the shapes agree
		if g, ok := ret.(*types.Generic); ok && g.Namespace.Name() == "Std::Pair" && len(names) == 1 {
			bodies = []string{names[0]}
		} else {
			bodies = first(gen(ret, c.deeper()), 1)
		}
	}
	var out []string
	for _, b := range bodies {
		out = append(out, head+b)
	}
	return out
}

// ---------------------------------------------------------------------------------------------------------
// receivers

type receiver struct {
	expr string
	bind map[string]types.Type
}

func bindOf(name string, i int) map[string]types.Type {
	b := map[string]types.Type{}
	if bs, ok := recvBind[name]; ok && len(bs) > 0 {
		if i >= len(bs) {
			i = len(bs) - 1
		}
		for k, v := range bs[i] {
			b[k] = named(v)
		}
	}
	return b
}

// receiversFor returns expressions denoting instances of the declaring namespace (or the namespace object itself
// for singleton/module methods).
func receiversFor(t target) []receiver {
	name := t.ns.Name()
	if t.singleton {
		return []receiver{{expr: "::" + name, bind: map[string]types.Type{}}}
	}
	c := &gctx{bind: map[string]types.Type{}}
	if p, ok := pool[name]; ok {
		var rs []receiver
		for i, e := range first(p, 6) {
			rs = append(rs, receiver{expr: e, bind: bindOf(name, i)})
		}
		return rs
	}
	switch ns := t.ns.(type) {
	case *types.Class:
		if ns.IsAbstract() {
			break
		}
		if e := construct(ns, c); e != "" {
			return []receiver{{expr: e, bind: map[string]types.Type{}}}
		}
		return nil
	}
	// mixin / interface / abstract class: instances of up to three concrete classes that have it as a parent,
	// preferring classes with hand-written pools
	var rs []receiver
	for pass := 0; pass < 2 && len(rs) < 3; pass++ {
		for _, cand := range allNS {
			cls, ok := cand.(*types.Class)
			if !ok || cls.IsAbstract() {
				continue
			}
			_, hasPool := pool[cls.Name()]
			if hasPool != (pass == 0) {
				continue
			}
			is := false
			for p := range types.Parents(cls) {
				if p.Name() == name && cls.Name() != name {
					is = true
					break
				}
			}
			if !is {
				continue
			}
			var e string
			if hasPool {
				if len(pool[cls.Name()]) == 0 {
					continue
				}
				e = pool[cls.Name()][0]
			} else {
				e = construct(cls, c)
			}
			if e != "" {
				rs = append(rs, receiver{expr: e, bind: bindOf(cls.Name(), 0)})
			}
			if len(rs) >= 3 {
				break
			}
		}
	}
	// boundary receivers: empty instances of the collection classes that include the mixin
	for _, em := range []struct {
		cls, expr string
		bind      map[string]string
	}{
		{"Std::ArrayList", "::Std::ArrayList::[::Std::Int]()", map[string]string{"Val": "Std::Int"}},
		{"Std::HashSet", "::Std::HashSet::[::Std::Int]()", map[string]string{"Val": "Std::Int"}},
		{"Std::HashMap", "::Std::HashMap::[::Std::String, ::Std::Int]()", map[string]string{"Key": "Std::String", "Value": "Std::Int"}},
	} {
		for _, cand := range allNS {
			cls, ok := cand.(*types.Class)
			if !ok || cls.Name() != em.cls {
				continue
			}
			for p := range types.Parents(cls) {
				if p.Name() == name {
					b := map[string]types.Type{}
					for k, v := range em.bind {
						b[k] = named(v)
					}
					rs = append(rs, receiver{expr: em.expr, bind: b})
					break
				}
			}
		}
	}
	return rs
}

// ---------------------------------------------------------------------------------------------------------
// calls

type call struct {
	recv   receiver
	args   []string
	src    string // the call expression (receiver variable r)
	arity  int
	void   bool
	setter bool
}

var identRe = regexp.MustCompile(`^[a-z_][A-Za-z0-9_]*[?!]?$`)

// callExpr renders the call in the syntax that reaches the method at run time (operators in method-call form
// so that the checker does not fold literal operands).
func callExpr(t target, recvVar string, args []string) (string, bool) {
	name := callName(t)
	joined := strings.Join(args, ", ")
	switch {
	case name == "#init":
		return "::" + t.ns.Name() + "(" + joined + ")", true
	case name == "[]":
		return recvVar + "[" + joined + "]", len(args) >= 1
	case name == "[]=":
		if len(args) != 2 {
			return "", false
		}
		return recvVar + "[" + args[0] + "] = " + args[1], true
	case name == "<<@":
		return "<<" + recvVar, true
	case strings.HasSuffix(name, "=") && identRe.MatchString(strings.TrimSuffix(name, "=")):
		if len(args) != 1 {
			return "", false
		}
		return recvVar + "." + strings.TrimSuffix(name, "=") + " = " + args[0], true
	case name == "call":
		return recvVar + ".call(" + joined + ")", true
	}
	return recvVar + "." + name + "(" + joined + ")", true
}

// argTuples enumerates argument tuples for the first n parameters: the full product when it has at most 12
// members, otherwise the all-first tuple plus every single-parameter variation.
func argTuples(pools [][]string) [][]string {
	prod := 1
	for _, p := range pools {
		prod *= len(p)
		if prod > 12 {
			break
		}
	}
	var out [][]string
	if prod <= 12 {
		idx := make([]int, len(pools))
		for {
			t := make([]string, len(pools))
			for i, p := range pools {
				t[i] = p[idx[i]]
			}
			out = append(out, t)
			k := len(pools) - 1
			for ; k >= 0; k-- {
				idx[k]++
				if idx[k] < len(pools[k]) {
					break
				}
				idx[k] = 0
			}
			if k < 0 {
				break
			}
		}
		return out
	}
	base := make([]string, len(pools))
	for i, p := range pools {
		base[i] = p[0]
	}
	out = append(out, append([]string(nil), base...))
	for i, p := range pools {
		for _, v := range p[1:] {
			t := append([]string(nil), base...)
			t[i] = v
			out = append(out, t)
		}
	}
	return out
}

type plan struct {
	calls     []call
	skip      string // non-empty: why the method is not called at all
	gapParams []string
}

func makePlan(t target, maxPerParam int) plan {
	m := t.m
	var p plan
	if m.PostParamCount > 0 {
		p.skip = "parameters after a rest parameter (not generated)"
		return p
	}
	recvs := receiversFor(t)
	if callName(t) == "#init" {
		recvs = []receiver{{expr: "nil", bind: bindOf(t.ns.Name(), 0)}}
	}
	if len(recvs) == 0 {
		p.skip = "no receiver expression for the declaring type (pool gap)"
		return p
	}
	var normal []*types.Parameter
	required := 0
	for _, prm := range m.Params {
		switch prm.Kind {
		case types.NormalParameterKind:
			normal = append(normal, prm)
			required++
		case types.DefaultValueParameterKind:
			normal = append(normal, prm)
		}
	}
	seenCall := map[string]bool{}
	for ri, rc := range recvs {
		// variant 0: method-level type parameters unbound (default binding); variant 1 ("same type"): every method-level
		// type parameter bound to the receiver's own element/key type, so that arguments of generic collection types
		// have the receiver's element kind (eg. a String tuple added to a String list)
		variants := 1
		if len(m.TypeParameters) > 0 && len(rc.bind) > 0 {
			variants = 2
		}
		for variant := 0; variant < variants; variant++ {
			c := &gctx{bind: map[string]types.Type{}, self: []string{rc.expr}}
			for k, v := range rc.bind {
				c.bind[k] = v
			}
			if variant == 1 {
				var same types.Type
				for _, k := range []string{"Val", "Key", "Value"} {
					if v, ok := rc.bind[k]; ok {
						same = v
						break
					}
				}
				if same == nil {
					continue
				}
				for _, tp := range m.TypeParameters {
					if _, bound := c.bind[tp.Name.String()]; !bound {
						c.bind[tp.Name.String()] = same
					}
				}
			}
			pools := make([][]string, len(normal))
			ok := true
			for i, prm := range normal {
				pools[i] = first(gen(prm.Type, c), maxPerParam)
				if len(pools[i]) == 0 {
					if i < required {
						ok = false
					}
					if ri == 0 {
						p.gapParams = append(p.gapParams, fmt.Sprintf("%s: %s", prm.Name.String(), types.Inspect(prm.Type)))
					}
				}
			}
			if !ok {
				continue
			}
			for n := required; n <= len(normal); n++ {
				if n > 0 && len(pools[n-1]) == 0 {
					break
				}
				tuples := argTuples(pools[:n])
				if ri > 0 && len(tuples) > 2 {
					tuples = tuples[:2] // further receivers: the first two tuples per arity
				}
				for _, args := range tuples {
					src, ok := callExpr(t, "r", args)
					if !ok {
						continue
					}
					if key := rc.expr + "\x00" + src; seenCall[key] {
						continue
					} else {
						seenCall[key] = true
					}
					_, void := m.ReturnType.(types.Void)
					_, never := m.ReturnType.(types.Never)
					name := callName(t)
					setter := name == "[]=" || (strings.HasSuffix(name, "=") && identRe.MatchString(strings.TrimSuffix(name, "=")))
					p.calls = append(p.calls, call{recv: rc, args: args, src: src, arity: n, void: void || never || m.ReturnType == nil, setter: setter})
				}
			}
		}
	}
	if len(p.calls) == 0 && p.skip == "" {
		p.skip = "no argument expression for a required parameter (pool gap)"
	}
	return p
}

// ---------------------------------------------------------------------------------------------------------
// running a batch of calls

type itemResult struct {
	rejected bool
	diag     string
	ready    bool
	recv     value.Value // the receiver value (undefined until the receiver expression has been evaluated)
	tag      string      // "ok", "err", "" (nothing recorded: the run did not get there)
	val      value.Value
	panicked string
	stack    string
	blocked  bool // the call did not return within blockTimeout
}

// blockTimeout bounds one batch of calls (normally milliseconds).
const blockTimeout = 6 * time.Second

// soloBlockTimeout is the additional time a call that blocked gets when it runs alone.
const soloBlockTimeout = 40 * time.Second

func itemSource(i int, cl call) string {
	var b strings.Builder
	fmt.Fprintf(&b, "do\n")
	fmt.Fprintf(&b, "  r%d := %s\n", i, cl.recv.expr)
	fmt.Fprintf(&b, "  res << %d; res << :ready; res << r%d\n", i, i)
	src := strings.Replace(cl.src, "r", fmt.Sprintf("r%d", i), 1)
	if strings.HasPrefix(cl.src, "<<r") {
		src = fmt.Sprintf("<<r%d", i)
	} else if strings.HasPrefix(cl.src, "::") {
		src = cl.src // constructor call: no receiver variable
	}
	if cl.void || cl.setter {
		fmt.Fprintf(&b, "  %s\n", src)
		fmt.Fprintf(&b, "  res << %d; res << :void; res << nil\n", i)
	} else {
		fmt.Fprintf(&b, "  x%d := %s\n", i, src)
		fmt.Fprintf(&b, "  res << %d; res << :ok; res << x%d\n", i, i)
	}
	fmt.Fprintf(&b, "catch e%d\n", i)
	fmt.Fprintf(&b, "  res << %d; res << :err; res << e%d\n", i, i)
	fmt.Fprintf(&b, "end\n")
	return b.String()
}

const header = "res := ::Std::ArrayList::[any]()\n"
const headerLines = 1

type compiled struct {
	fn    *vm.BytecodeFunction
	diags diagnostic.DiagnosticList
	panic string
	stack string
}

func compileSrc(src string) (c compiled) {
	defer func() {
		if p := recover(); p != nil {
			c.stack = string(debug.Stack())
			c.panic = engine.PanicSig(fmt.Sprint(p), c.stack)
			c.fn = nil
			tainted = true
		}
	}()
	fn, diags := checker.CheckSource("c28.elk", src, nil, bitfield.BitField16{}, nil)
	c.diags = diags
	if diags.IsFailure() || fn == nil {
		return c
	}
	c.fn = fn
	return c
}

// runItems type-checks and runs the calls; rejected items are identified through the diagnostics' line numbers
// (falling back to bisection) and dropped, so that one ill-typed call cannot mask the others.
func runItems(calls []call, idx []int, res []itemResult, depth int) {
	if len(idx) == 0 {
		return
	}
	var b strings.Builder
	b.WriteString(header)
	type span struct{ from, to, item int }
	var spans []span
	line := headerLines + 1
	for _, i := range idx {
		s := itemSource(i, calls[i])
		n := strings.Count(s, "\n")
		spans = append(spans, span{line, line + n - 1, i})
		line += n
		b.WriteString(s)
	}
	b.WriteString("res\n")
	c := compileSrc(b.String())
	if c.fn == nil {
		if len(idx) == 1 {
			i := idx[0]
			if c.panic != "" {
				res[i].panicked, res[i].stack = "checker: "+c.panic, c.stack
			} else {
				res[i].rejected = true
				res[i].diag = c.diags.Error()
			}
			return
		}
		// map failures to items by line
		bad := map[int]bool{}
		mapped := c.panic == ""
		if c.panic == "" {
			for _, d := range c.diags {
				if d.Severity != diagnostic.FAIL || d.Location == nil {
					continue
				}
				l := d.Location.StartPos.Line
				found := false
				for _, sp := range spans {
					if l >= sp.from && l <= sp.to {
						bad[sp.item] = true
						found = true
						break
					}
				}
				if !found {
					mapped = false
				}
			}
		}
		if mapped && len(bad) > 0 && len(bad) < len(idx) && depth < 6 {
			var good, rest []int
			for _, i := range idx {
				if bad[i] {
					rest = append(rest, i)
				} else {
					good = append(good, i)
				}
			}
			runItems(calls, good, res, depth+1)
			for _, i := range rest {
				runItems(calls, []int{i}, res, depth+1)
			}
			return
		}
		mid := len(idx) / 2
		runItems(calls, idx[:mid], res, depth+1)
		runItems(calls, idx[mid:], res, depth+1)
		return
	}
	// run, on a goroutine of its own: a call that blocks (a native waiting on a lock or channel forever) is abandoned
	// after blockTimeout — the goroutine stays parked — and the process counts as tainted from then on
	type runOut struct {
		val, errv  value.Value
		pan, stack string
	}
	done := make(chan runOut, 1)
	go func() {
		var o runOut
		var out strings.Builder
		defer func() {
			if p := recover(); p != nil {
				o.stack = string(debug.Stack())
				o.pan = engine.PanicSig(fmt.Sprint(p), o.stack)
			}
			done <- o
		}()
		th := vm.New(vm.WithStdout(&out), vm.WithStderr(&out))
		defer th.Aborter.CancelFunc()()
		o.val, o.errv = th.InterpretTopLevel(c.fn)
	}()
	var o runOut
	got := false
	select {
	case o = <-done:
		got = true
	case <-time.After(blockTimeout):
		tainted = true
		if len(idx) == 1 {
			// alone: give a runaway native recursion time to hit the stack limit (a fatal error, attributed to this
			// case by the engine) before the call is written off as blocked
			select {
			case o = <-done:
				got = true
			case <-time.After(soloBlockTimeout):
			}
		}
		if !got {
			if len(idx) == 1 {
				res[idx[0]].blocked = true
				return
			}
			mid := len(idx) / 2
			runItems(calls, idx[:mid], res, depth+1)
			runItems(calls, idx[mid:], res, depth+1)
			return
		}
	}
	val, errv, pan, stack := o.val, o.errv, o.pan, o.stack
	// a dispatch failure ("tried to call an invalid method") panics before any native code has run: it leaves
	// nothing behind; any other panic may have interrupted a native function half-way
	if pan != "" && !strings.HasPrefix(pan, "tried to call an invalid method") {
		tainted = true
	}
	if pan != "" {
		if len(idx) == 1 {
			res[idx[0]].panicked, res[idx[0]].stack = pan, stack
			return
		}
		mid := len(idx) / 2
		runItems(calls, idx[:mid], res, depth+1)
		runItems(calls, idx[mid:], res, depth+1)
		return
	}
	if !errv.IsUndefined() {
		// an error escaped the per-item catch (cannot happen by construction): treat like a panic of the batch
		if len(idx) == 1 {
			res[idx[0]].tag, res[idx[0]].val = "err", errv
			return
		}
		mid := len(idx) / 2
		runItems(calls, idx[:mid], res, depth+1)
		runItems(calls, idx[mid:], res, depth+1)
		return
	}
	lst, ok := val.SafeAsReference().(value.ArrayTuple)
	if !ok {
		return
	}
	var flat []value.Value
	for _, v := range lst.Elements() {
		flat = append(flat, v)
	}
	for k := 0; k+2 < len(flat); k += 3 {
		if !flat[k].IsSmallInt() {
			continue
		}
		i := int(flat[k].AsSmallInt())
		if i < 0 || i >= len(res) {
			continue
		}
		tag := ""
		if flat[k+1].IsInlineSymbol() {
			tag = flat[k+1].AsInlineSymbol().String()
		}
		switch tag {
		case "ready":
			res[i].ready = true
			res[i].recv = flat[k+2]
		case "ok", "err", "void":
			res[i].tag, res[i].val = tag, flat[k+2]
		}
	}
}

// ---------------------------------------------------------------------------------------------------------
// the oracle: does a runtime value inhabit a declared type?

type verdict int

const (
	conforms verdict = iota
	violates
	undecided
)

func runtimeConst(name string) value.Value {
	parts := strings.Split(name, "::")
	cur := value.Ref(value.RootModule)
	for _, p := range parts {
		var cc *value.ConstantContainer
		switch o := cur.SafeAsReference().(type) {
		case *value.Module:
			cc = &o.ConstantContainer
		case *value.Class:
			cc = &o.ConstantContainer
		case *value.Interface:
			cc = &o.ConstantContainer
		default:
			return value.Undefined
		}
		cur = cc.Constants.Get(value.ToSymbol(p))
		if cur.IsUndefined() {
			return value.Undefined
		}
	}
	return cur
}

type octx struct {
	bind  map[string]types.Type
	recv  value.Value // the receiver of the call (for `self`); undefined when unknown
	depth int
}

func check(v value.Value, t types.Type, c *octx) verdict {
	if c.depth > 6 {
		return undecided
	}
	d := *c
	d.depth++
	switch tt := t.(type) {
	case nil:
		return undecided
	case types.Any, types.Void:
		return conforms
	case types.Never:
		return violates
	case *types.NamedType:
		return check(v, tt.Type, &d)
	case types.Bool:
		if v.IsTrue() || v.IsFalse() {
			return conforms
		}
		return violates
	case types.True:
		if v.IsTrue() {
			return conforms
		}
		return violates
	case types.False:
		if v.IsFalse() {
			return conforms
		}
		return violates
	case types.Nil:
		if v.IsNil() {
			return conforms
		}
		return violates
	case *types.Nilable:
		if v.IsNil() {
			return conforms
		}
		return check(v, tt.Type, &d)
	case *types.Union:
		und := false
		for _, e := range tt.Elements {
			switch check(v, e, &d) {
			case conforms:
				return conforms
			case undecided:
				und = true
			}
		}
		if und {
			return undecided
		}
		return violates
	case *types.TypeParameter:
		if b, ok := c.bind[tt.Name.String()]; ok {
			return check(v, b, &d)
		}
		return undecided
	case types.Self:
		// `self` is the type of the receiver: the result must be an instance of the receiver's runtime class
		if c.recv.IsUndefined() {
			return undecided
		}
		rc, ok := safeClass(c.recv)
		if !ok || rc == nil {
			return undecided
		}
		if value.IsA(v, rc) {
			return conforms
		}
		return violates
	case *types.Generic:
		return checkNamed(v, tt.Namespace.Name())
	case *types.Class:
		return checkNamed(v, tt.Name())
	case *types.Mixin:
		return checkNamed(v, tt.Name())
	case *types.Interface:
		cls, ok := safeClass(v)
		if !ok || cls == nil {
			return undecided
		}
		for name, m := range types.AllMethods(tt) {
			_ = m
			if cls.LookupMethod(name) == nil {
				return violates
			}
		}
		return conforms
	case *types.Callable:
		return undecided
	case *types.SingletonClass, *types.SingletonOf, *types.InstanceOf, *types.Not, *types.Intersection:
		return undecided
	}
	if t.IsLiteral() {
		if v.Inspect() == types.Inspect(t) {
			return conforms
		}
		return violates
	}
	return undecided
}

func checkNamed(v value.Value, name string) verdict {
	rc := runtimeConst(name)
	cls, ok := rc.SafeAsReference().(*value.Class)
	if !ok {
		return undecided // interfaces and the like have no runtime class object
	}
	if value.IsA(v, cls) {
		return conforms
	}
	return violates
}

// ---------------------------------------------------------------------------------------------------------

var invalidMethodRe = regexp.MustCompile("tried to call an invalid method: <nil> \\(:\"?([^\")]+)\"?\\) of class: (\\S*)")

// evalExpr evaluates one expression on its own (used to look at the receiver of a call that panicked).
func evalExpr(expr string) (v value.Value) {
	v = value.Undefined
	defer func() { recover() }()
	c := compileSrc("x := " + expr + "\nx\n")
	if c.fn == nil {
		return
	}
	var out strings.Builder
	th := vm.New(vm.WithStdout(&out), vm.WithStderr(&out))
	defer th.Aborter.CancelFunc()()
	val, errv := th.InterpretTopLevel(c.fn)
	if errv.IsUndefined() {
		v = val
	}
	return
}

// panicSignature names the defect behind a Go panic: a method that the headers declare but the runtime does not
// have (per runtime class and method; per mixin when the runtime class does not include the mixin at all), or a
// panic inside a native function (identified by its frames; the method is added when the frames are generic).
func panicSignature(t target, cl call, ir itemResult) string {
	msg := ir.panicked
	if m := invalidMethodRe.FindStringSubmatch(msg); m != nil {
		method, rclass := m[1], m[2]
		if _, isMixin := t.ns.(*types.Mixin); isMixin && !t.singleton {
			if mc, ok := runtimeConst(t.ns.Name()).SafeAsReference().(*value.Class); ok {
				if rv := evalExpr(cl.recv.expr); !rv.IsUndefined() && !value.IsA(rv, mc) {
					return fmt.Sprintf("mixin methods the headers give to %s are missing at run time: the runtime class does not include the mixin (Go panic: tried to call an invalid method)", className(rv))
				}
			}
		}
		if rclass == "" {
			return fmt.Sprintf("no runtime implementation of singleton method %s (Go panic: tried to call an invalid method)", t.id)
		}
		return fmt.Sprintf("no runtime implementation of %s#%s (Go panic: tried to call an invalid method)", rclass, method)
	}
	// any other panic: the message plus the native function it happened under (the frame called by the VM's native
	// dispatch), not the innermost frames: where exactly a native trips over a bad value may differ from run to run,
	// the native that was entered does not
	text := strings.SplitN(msg, " @ ", 2)[0]
	if nf := nativeFrame(ir.stack); nf != "" {
		return fmt.Sprintf("go-panic calling %s: %s [native %s]", t.id, text, nf)
	}
	return fmt.Sprintf("go-panic calling %s: %s", t.id, msg)
}

var closureSuffixRe = regexp.MustCompile(`(\.func\d+|\.\d+)+$`)

var dispatchFrameRe = regexp.MustCompile(`^github\.com/elk-language/elk/vm\.\(\*Thread\)\.(callNativeMethod|CallMethod|callNativeClosure|CallNativeClosure|opInstantiate)\(`)

// nativeFrame returns the function that the VM's native dispatch had called when the panic happened (innermost
// dispatch), e.g. "vm.initPair"; "" when the panic did not happen under a native.
func nativeFrame(stack string) string {
	prev := ""
	for _, l := range strings.Split(stack, "\n") {
		if l == "" || l[0] == '\t' || strings.HasPrefix(l, "goroutine ") {
			continue
		}
		if dispatchFrameRe.MatchString(l) {
			if strings.HasPrefix(prev, "github.com/elk-language/elk/") && !strings.HasPrefix(prev, "github.com/elk-language/elk/vm.(*Thread).") {
				f := strings.TrimPrefix(prev, "github.com/elk-language/elk/")
				if i := strings.LastIndex(f, "("); i > 0 {
					f = f[:i]
				}
				// closures are numbered in source order (initPair.func7): the number moves when a native is added
				// above it, the enclosing init function does not
				return closureSuffixRe.ReplaceAllString(f, "")
			}
			return ""
		}
		if strings.HasPrefix(l, "github.com/elk-language/elk/") {
			prev = l
		} else if !strings.HasPrefix(l, "panic(") && !strings.HasPrefix(l, "runtime.") {
			prev = ""
		}
	}
	return ""
}

// trimStack drops the harness/runtime frames above the first elk frame.
func trimStack(st string) string {
	if i := strings.Index(st, "github.com/elk-language/elk/"); i >= 0 {
		j := strings.LastIndex(st[:i], "\n")
		if j >= 0 {
			return st[j+1:]
		}
	}
	return st
}

var debugFile *os.File

// debugf appends to a per-process file under .work/c28 (development aid, enabled by C28_DEBUG).
func debugf(format string, args ...any) {
	if debugFile == nil {
		os.MkdirAll("/verif/.work/c28", 0o755)
		f, err := os.OpenFile(fmt.Sprintf("/verif/.work/c28/debug-%d.txt", os.Getpid()), os.O_CREATE|os.O_WRONLY|os.O_APPEND, 0o644)
		if err != nil {
			return
		}
		debugFile = f
	}
	fmt.Fprintf(debugFile, format, args...)
}

// safeClass returns the class of a value; ok=false when the value is not a well-formed Elk value (e.g. a reference
// wrapping a nil Go pointer), for which Class() itself panics.
func safeClass(v value.Value) (c *value.Class, ok bool) {
	defer func() {
		if recover() != nil {
			c, ok = nil, false
		}
	}()
	return v.Class(), true
}

func className(v value.Value) string {
	c, ok := safeClass(v)
	if !ok {
		return "<malformed value>"
	}
	if c == nil {
		return "<no class>"
	}
	return c.PrintableName()
}

func safeInspect(v value.Value) (s string) {
	defer func() {
		if recover() != nil {
			s = "<uninspectable>"
		}
	}()
	return v.Inspect()
}

func short(s string, n int) string {
	if len(s) > n {
		return s[:n] + "…"
	}
	return s
}

var quickClasses = regexp.MustCompile(`^Std::(String|Int|Float|BigFloat|Char|Symbol|Bool|True|False|Nil|Value|ArrayList|ArrayTuple|HashMap|HashSet|HashRecord|Pair|Regex|Date|Time|DateTime|Timezone|Result|Box|ImmutableBox|Kernel|Channel|Tuple|List|Map|Set|Record|Range|Iterable|Comparable|Duration|Error|Class|` +
	`ClosedRange|OpenRange|LeftOpenRange|RightOpenRange|BeginlessClosedRange|BeginlessOpenRange|EndlessClosedRange|EndlessOpenRange|Int8|UInt8|Int64|UInt64|Float64|FS::Path|Sync::Once|Sync::WaitGroup)(::|$)`)

// finding is one violation candidate of one call.
type finding struct {
	item   int
	sig    string
	detail string
	input  any
}

// judged is what one call contributed.
type judged struct {
	findings []finding
	outcome  string
	counters []string
	blocked  string
	reached  bool // the call got into the method and came back with a result or an Elk error other than NoMethodError / arity
	ran      bool // accepted by the checker and executed
}

// judge applies the oracle to one executed call.
func judge(t target, i int, cl call, ir itemResult, debugMode bool) (j judged) {
	m := t.m
	sig := m.InspectSignature(true)
	input := map[string]any{"method": t.id, "signature": sig, "program": header + itemSource(i, cl) + "res\n"}
	oc := &octx{bind: cl.recv.bind, recv: value.Undefined}
	if ir.ready && !t.singleton && callName(t) != "#init" {
		oc.recv = ir.recv
	}
	what := fmt.Sprintf("%s\n  header: %s\n  receiver: %s\n  call: %s", t.id, sig, cl.recv.expr, cl.src)
	add := func(sig, detail string) {
		j.findings = append(j.findings, finding{item: i, sig: sig, detail: detail, input: input})
	}
	switch {
	case ir.panicked != "":
		j.ran = true
		add(panicSignature(t, cl, ir), what+"\n  Go panic: "+ir.panicked+"\n"+short(trimStack(ir.stack), 1000))
		j.outcome = "go-panic"
	case ir.blocked:
		j.counters = append(j.counters, "call blocked (did not return within 6 s; abandoned, noted, not a violation of this property)")
		j.outcome = "blocked"
		j.blocked = fmt.Sprintf("%s: receiver %s call %s", t.id, cl.recv.expr, cl.src)
	case ir.rejected:
		j.counters = append(j.counters, "pool gap: call rejected by the type checker")
		j.outcome = "rejected"
		if debugMode {
			debugf("REJ %s: %s\n     %s\n", t.id, cl.src, short(strings.ReplaceAll(ir.diag, "\n", " | "), 300))
		}
	case ir.tag == "" && !ir.ready:
		j.counters = append(j.counters, "receiver construction did not complete")
	case ir.tag == "":
		j.counters = append(j.counters, "call did not complete (no result recorded)")
	case ir.tag == "err" && !ir.ready:
		j.counters = append(j.counters, "receiver expression raised")
		if debugMode {
			debugf("RECVERR %s: %s → %s\n", t.id, cl.recv.expr, short(ir.val.Inspect(), 200))
		}
	case ir.tag == "err":
		ev := ir.val
		ecls := className(ev)
		j.ran = true
		j.outcome = "raised " + ecls
		j.reached = true
		msg := ""
		if o, ok := ev.SafeAsReference().(*value.Object); ok && value.IsA(ev, value.ErrorClass) {
			if mv := o.Message(); !mv.IsUndefined() {
				msg = mv.Inspect()
			}
		}
		switch {
		case value.IsA(ev, value.NoMethodErrorClass):
			j.reached = false
			add(fmt.Sprintf("NoMethodError calling %s", t.id), what+"\n  raised: "+short(ev.Inspect(), 300))
		case value.IsA(ev, value.ArgumentErrorClass) && strings.Contains(msg, "wrong number of arguments"):
			j.reached = false
			add(fmt.Sprintf("wrong-argument-count error calling %s with %d argument(s)", t.id, cl.arity), what+"\n  raised: "+short(ev.Inspect(), 300))
		case value.IsA(ev, value.ErrorClass):
			// the declared throw type or an unchecked runtime error (any Std::Error)
			if value.IsA(ev, value.TypeErrorClass) {
				j.counters = append(j.counters, "TypeError raised by a well-typed call (not a violation of the statement)")
				if debugMode {
					debugf("TYPEERR %s: %s on %s → %s\n", t.id, cl.src, cl.recv.expr, short(ev.Inspect(), 200))
				}
			}
		default:
			switch check(ev, m.ThrowType, oc) {
			case violates:
				add(fmt.Sprintf("%s throws a %s: neither its declared throw type nor a Std::Error", t.id, ecls),
					what+fmt.Sprintf("\n  declared throw type: %s\n  thrown: %s", types.Inspect(m.ThrowType), short(ev.Inspect(), 300)))
			case undecided:
				j.counters = append(j.counters, "thrown value not decidable against the declared throw type")
			}
		}
	default: // ok / void
		j.ran = true
		j.reached = true
		if ir.tag == "void" {
			j.outcome = "returned (void)"
			break
		}
		v := ir.val
		if v.IsUndefined() {
			// the VM's internal "no value" marker escaped into the program: no declared type admits it, and using it crashes
			j.outcome = "returned undefined"
			add(fmt.Sprintf("%s returns the VM's internal undefined value but is declared to return %s", t.id, types.Inspect(m.ReturnType)),
				what+fmt.Sprintf("\n  declared return type: %s\n  returned: undefined (the native returned no value and no error)", types.Inspect(m.ReturnType)))
			break
		}
		j.outcome = "returned " + className(v)
		if _, ok := safeClass(v); !ok {
			add(fmt.Sprintf("%s returns a malformed value (a reference to a nil Go pointer): its class cannot be taken", t.id),
				what+fmt.Sprintf("\n  declared return type: %s\n  returned: a value whose Class() panics", types.Inspect(m.ReturnType)))
			break
		}
		var rt types.Type = m.ReturnType
		if callName(t) == "#init" {
			rt = t.ns
		}
		switch check(v, rt, oc) {
		case violates:
			add(fmt.Sprintf("%s returns a %s but is declared to return %s", t.id, className(v), types.Inspect(rt)),
				what+fmt.Sprintf("\n  declared return type: %s\n  returned: %s (class %s)", types.Inspect(rt), short(safeInspect(v), 300), className(v)))
		case undecided:
			j.counters = append(j.counters, "result not decidable against the declared return type (type parameter / callable / singleton type)")
		}
	}
	return j
}

// reexecFrom replaces the worker process by a fresh image of itself that resumes at case index idx (same pid, same
// journal, so the engine does not notice). Only in worker mode; a replay / solo re-run executes a single case anyway.
func reexecFrom(idx int64) {
	args := append([]string(nil), os.Args...)
	isWorker, hasSkip := false, false
	for i := 0; i < len(args); i++ {
		a := strings.TrimLeft(args[i], "-")
		switch {
		case a == "worker":
			isWorker = true
		case a == "only-idx" || strings.HasPrefix(a, "only-idx="):
			return
		case a == "skip" && i+1 < len(args):
			if cur, err := strconv.ParseInt(args[i+1], 10, 64); err == nil && cur > idx {
				return // the engine already told us to start later than that
			}
			args[i+1] = strconv.FormatInt(idx, 10)
			hasSkip = true
		}
	}
	if !isWorker {
		return
	}
	if !hasSkip {
		args = append(args, "--skip", strconv.FormatInt(idx, 10))
	}
	exe, err := os.Executable()
	if err != nil {
		return
	}
	if debugFile != nil {
		debugFile.Close()
	}
	syscall.Exec(exe, args, os.Environ()) // does not return on success
}

// tainted is set once this process has recovered a Go panic raised inside elk: process-global state (locks held by
// the panicking native, half-updated tables) may be inconsistent from then on, so every later finding of this
// process is confirmed by re-running the call in a fresh process before it is reported.
var tainted bool

// confirmInChild re-judges the given calls of a method in a fresh process and returns the signatures found there.
func confirmInChild(c *engine.Ctx, t target, items []int) (map[string]bool, error) {
	exe, err := os.Executable()
	if err != nil {
		return nil, err
	}
	var parts []string
	for _, i := range items {
		parts = append(parts, strconv.Itoa(i))
	}
	ctx, cancel := context.WithTimeout(context.Background(), 90*time.Second)
	defer cancel()
	cmd := exec.CommandContext(ctx, exe, "--tier", c.Tier)
	cmd.Env = append(os.Environ(), "C28_CONFIRM="+t.id, "C28_CONFIRM_ITEMS="+strings.Join(parts, ","), "VERIF_WORKER=1")
	out, err := cmd.Output()
	sigs := map[string]bool{}
	for _, l := range strings.Split(string(out), "\n") {
		if strings.HasPrefix(l, "SIG\t") {
			sigs[strings.TrimPrefix(l, "SIG\t")] = true
		}
	}
	if !strings.Contains(string(out), "\nDONE\n") && !strings.HasPrefix(string(out), "DONE\n") {
		// the child died (fatal error) or hung: a crash confirms a crash-like finding only; report nothing else
		return sigs, fmt.Errorf("confirmation process did not finish: %v", err)
	}
	return sigs, nil
}

// childMain is the entry point of a confirmation process.
func childMain(tier string) {
	elkrun.Init()
	debug.SetMaxStack(16 << 20)
	env = checker.NewGlobalEnvironment()
	allNS = allNamespaces()
	id := os.Getenv("C28_CONFIRM")
	want := map[int]bool{}
	for _, p := range strings.Split(os.Getenv("C28_CONFIRM_ITEMS"), ",") {
		if n, err := strconv.Atoi(p); err == nil {
			want[n] = true
		}
	}
	out := confirmOut // the real stdout (elkrun.Init redirects os.Stdout in worker mode)
	for _, t := range targets(allNS) {
		if t.id != id {
			continue
		}
		pl := makePlan(t, maxPerParamFor(tier == "thorough"))
		res := make([]itemResult, len(pl.calls))
		for i := range pl.calls {
			if !want[i] {
				continue
			}
			runItems(pl.calls, []int{i}, res, 0)
			for _, f := range judge(t, i, pl.calls[i], res[i], false).findings {
				fmt.Fprintf(out, "SIG\t%s\n", f.sig)
			}
		}
	}
	fmt.Fprintf(out, "DONE\n")
	os.Exit(0)
}

var confirmOut *os.File

func maxPerParamFor(thorough bool) int {
	if thorough {
		return 4
	}
	return 3
}

func run(c *engine.Ctx) {
	all := allNS
	ts := targets(all)
	debugMode := os.Getenv("C28_DEBUG") != ""
	only := os.Getenv("C28_ONLY") // development aid: regexp on the method id
	var onlyRe *regexp.Regexp
	if only != "" {
		onlyRe = regexp.MustCompile(only)
	}
	maxPerParam := maxPerParamFor(c.Thorough)
	caseIdx := int64(-1) // mirrors the engine's case index (one per c.Case call)
	for _, t := range ts {
		t := t
		if onlyRe != nil && !onlyRe.MatchString(t.id) {
			continue
		}
		if !c.Thorough && onlyRe == nil && !quickClasses.MatchString(t.ns.Name()) {
			continue
		}
		caseIdx++
		if tainted {
			// the previous case left this process in a doubtful state (a native panicked half-way, or a call was
			// abandoned while blocked): continue in a fresh process image, from this case on
			reexecFrom(caseIdx)
		}
		c.Case(t.id, func(r *engine.R) {
			m := t.m
			sig := m.InspectSignature(true)
			switch {
			case m.IsMacro() || strings.HasSuffix(t.key, "!"):
				r.Count("excluded: macro (expanded at compile time, not callable at run time)", 1)
				return
			case m.IsAbstract():
				r.Count("excluded: abstract / interface-only declaration", 1)
				return
			case strings.HasPrefix(callName(t), "_"):
				r.Count("excluded: private method (not callable from outside)", 1)
				return
			case m.IsGenerator() || m.IsAsync():
				r.Count("excluded: generator/async method (declared type is not the type of the call's value)", 1)
				return
			}
			if why := excluded(t.id); why != "" {
				r.Count("excluded: "+why, 1)
				r.Note("excluded " + t.id + ": " + why)
				return
			}
			pl := makePlan(t, maxPerParam)
			if pl.skip != "" {
				r.Count("not called: "+pl.skip, 1)
				if debugMode {
					debugf("SKIP %s: %s %v\n     %s\n", t.id, pl.skip, pl.gapParams, sig)
				}
				return
			}
			wasTainted := tainted
			res := make([]itemResult, len(pl.calls))
			idx := make([]int, len(pl.calls))
			for i := range idx {
				idx[i] = i
			}
			runItems(pl.calls, idx, res, 0)
			aritiesOK := map[int]bool{}
			aritiesAll := map[int]bool{}
			var findings []finding
			for i, cl := range pl.calls {
				j := judge(t, i, cl, res[i], debugMode)
				aritiesAll[cl.arity] = true
				r.Eval(1)
				if j.ran {
					r.NT(1)
				}
				if j.reached {
					aritiesOK[cl.arity] = true
				}
				if j.outcome != "" {
					r.Outcome(j.outcome)
				}
				for _, cn := range j.counters {
					r.Count(cn, 1)
				}
				if j.blocked != "" {
					r.Note("blocked: " + j.blocked)
				}
				findings = append(findings, j.findings...)
			}
			// findings made in a process that had recovered a Go panic before this case (or earlier in this case)
			// are confirmed in a fresh process
			if len(findings) > 0 && (wasTainted || tainted) {
				seen := map[int]bool{}
				var items []int
				for _, f := range findings {
					if !seen[f.item] {
						seen[f.item] = true
						items = append(items, f.item)
					}
				}
				sigs, err := confirmInChild(c, t, items)
				var kept []finding
				for _, f := range findings {
					if sigs[f.sig] {
						kept = append(kept, f)
					} else {
						r.Count("finding not confirmed in a fresh process (dropped)", 1)
						if debugMode {
							debugf("UNCONFIRMED %s: %s (child error: %v; child found %v)\n", t.id, f.sig, err, sigs)
						}
					}
				}
				r.Count("findings confirmed in a fresh process", len(kept))
				findings = kept
			}
			for _, f := range findings {
				r.Violation(f.sig, f.detail, f.input)
			}
			for a := range aritiesAll {
				if aritiesOK[a] {
					r.Count("method×arity reached at run time", 1)
				} else {
					r.Count("method×arity never reached (every call rejected or failed)", 1)
				}
			}
			r.Sample(fmt.Sprintf("%s: %d calls, e.g. receiver %s call %s", t.id, len(pl.calls), pl.calls[0].recv.expr, pl.calls[0].src))
		})
	}
}

// corruptionSig is the one signature given to worker crashes whose crash site is not a deterministic consequence of
// the case that was running: several natives cast their arguments with unsafe pointer conversions, so a call that
// reaches them with a value of another class (see the "interface conversion"/"not a reference" findings) scribbles
// over the Go heap, and the process dies later at an arbitrary place (GC, timers, JSON encoding, the type checker).
const corruptionSig = "host-crash: Go runtime fault at a varying site (heap corrupted by a memory-unsafe native reached from well-typed Elk code); the crashing case is not necessarily the culprit"

// normaliseCrashes runs in the parent after all workers: crash signatures built from the crash site are kept only
// when the site identifies the defect (runaway native recursion); the others get the one stable signature above.
func normaliseCrashes(a *engine.Agg) {
	for i := range a.Viol {
		v := &a.Viol[i]
		if strings.HasPrefix(v.Sig, "host-crash:") && !strings.Contains(v.Sig, "stack overflow") {
			v.Detail = "crash signature of this run: " + v.Sig + "\n" + v.Detail
			v.Sig = corruptionSig
		}
	}
}

func main() {
	if os.Getenv("C28_CONFIRM") != "" {
		// keep the real stdout for the protocol before elkrun.Init redirects os.Stdout
		confirmOut = os.Stdout
		tier := "quick"
		for i, a := range os.Args {
			if a == "--tier" && i+1 < len(os.Args) {
				tier = os.Args[i+1]
			}
		}
		childMain(tier)
		return
	}
	var notes []string
	for _, e := range exclusions {
		notes = append(notes, e.re.String()+": "+e.reason)
	}
	engine.Main(&engine.Spec{
		Prop:  "C28",
		Level: "exploration",
		Rule: "every method declared in the type environment built from the std headers, under every class/mixin/module/interface of Std (quick: a fixed list of core classes; thorough: all), " +
			"one case per method (overloads separately): receivers from per-type literal pools (≤ 6: for ArrayList/ArrayTuple also the unboxed specialisations Float, UInt8, Symbol; class type parameters bound per pool literal; mixins through instances of ≤ 3 including classes plus empty ArrayList/HashSet/HashMap instances), method-level type parameters unbound (default Int) and, as a second variant, bound to the receiver's own element type, " +
			"× every admissible arity (required … required+optional; rest parameters get no arguments) × argument tuples from per-type pools (≤ 3 values per parameter, thorough 4; full product when ≤ 12 tuples, else the first tuple and every single-parameter variation); " +
			"each call type-checked as its own item (rejections = pool gaps, counted), run in the VM, result/thrown value inspected in Go (value.IsA) against the declared return/throw type; " +
			"non-trivial = a call that was accepted and ran to a result or an Elk error",
		Assume: []string{
			"explicit exclusions (not called): macros, abstract/interface-only declarations, private methods, generator/async methods, and: " + strings.Join(notes, "; "),
			"an unchecked runtime error is any instance of Std::Error; TypeError on a well-typed call is counted, not reported",
			"generic return types are checked for the outer class only; results typed by method-level type parameters, callables and singleton types are counted as undecidable",
			"after a worker process has recovered a Go panic raised inside elk, every later finding of that process is re-run in a fresh process and reported only if it reproduces there",
		},
		Setup: func(c *engine.Ctx) {
			elkrun.Init()
			debug.SetMaxStack(16 << 20) // runaway native recursion dies quickly instead of growing a 1 GB stack
			env = checker.NewGlobalEnvironment()
			allNS = allNamespaces()
		},
		Run:             run,
		Finish:          normaliseCrashes,
		HangIsViolation: false,
		CaseTimeout:     240 * time.Second,
		QuickDeadline:   12 * time.Minute, // the tier is sized for ~1 min on 16 idle cores; the cap only matters on an overloaded machine
	})
}
