// C16 — awaiting never loses a wake-up or deadlocks the runtime.
// Engine E1: async Elk programs are compiled once; every execution creates a fresh thread pool (n workers,
// queue capacity q) and main VM thread *inside* the controlled scheduler, which owns every Mutex, WaitGroup,
// task-queue channel operation and goroutine start of vm/promise.go, vm/thread_pool.go and vm/thread.go
// (instrumented from /repo's working tree through a build overlay). All schedules up to a preemption bound
// are enumerated; promise.go and thread_pool.go additionally have a scheduling point before every statement.
package main

import (
	"encoding/json"
	"fmt"
	"os"
	"sort"
	"strings"
	"time"

	"github.com/elk-language/elk/verifrt"
	"github.com/elk-language/elk/vm"

	"verifharness/elkrun"
	"verifharness/engine"
	"verifharness/sched"
)

type scen struct {
	name   string
	src    string
	expect []string // expected stdout lines (compared as a multiset: lines come from different workers)
	tasks  int      // number of async tasks started (for the capacity argument)
}

var scens = []scen{
	{"S1-chain3", `
async def k1_a: Int
  println("a")
  1
end
async def k1_b: Int
  x := await k1_a()
  println("b-resumed")
  x + 1
end
async def k1_c: Int
  x := await k1_b()
  println("c-resumed")
  x + 1
end
println(k1_c().await_sync)
`, []string{"a", "b-resumed", "c-resumed", "3"}, 3},
	{"S2-two-awaiters", `
async def k2_a: Int
  println("a")
  1
end
async def k2_w(p: Promise[Int], tag: String): Int
  x := await p
  println(tag)
  x + 1
end
p := k2_a()
x := k2_w(p, "w1-resumed")
y := k2_w(p, "w2-resumed")
println(x.await_sync + y.await_sync)
`, []string{"a", "w1-resumed", "w2-resumed", "4"}, 3},
	{"S3-await-vs-resolve", `
async def k3_a: Int
  1
end
async def k3_b: Int
  x := await k3_a()
  println("b-resumed")
  x + 1
end
println(k3_b().await_sync)
`, []string{"b-resumed", "2"}, 2},
	{"S4-rejected-twice", `
async def k4_a: Int ! :boom
  println("a")
  throw :boom
end
async def k4_w(p: Promise[Int, :boom], tag: String): Int
  var r: Int = 0
  do
    r = await p
  catch :boom
    println(tag)
    r = -1
  end
  r + 1
end
p := k4_a()
x := k4_w(p, "w1-caught")
y := k4_w(p, "w2-caught")
println(x.await_sync + y.await_sync)
`, []string{"a", "w1-caught", "w2-caught", "0"}, 3},
	{"S5-spawn-two", `
async def k5_leaf(n: Int): Int
  println("leaf")
  n
end
async def k5_parent: Int
  p := k5_leaf(1)
  q := k5_leaf(2)
  x := await p
  y := await q
  println("parent-resumed")
  x + y
end
println(k5_parent().await_sync)
`, []string{"leaf", "leaf", "parent-resumed", "3"}, 3},
	{"S6-fanout3", `
async def k6_leaf(n: Int): Int
  n
end
p := k6_leaf(1)
q := k6_leaf(2)
r := k6_leaf(3)
async def k6_sum(p: Promise[Int], q: Promise[Int], r: Promise[Int]): Int
  x := await p
  y := await q
  z := await r
  println("sum-resumed")
  x + y + z
end
println(k6_sum(p, q, r).await_sync)
`, []string{"sum-resumed", "6"}, 4},
}

type poolCfg struct{ n, q int }

var caseBudget = 45 * time.Second

func outcomeOf(out string, x *verifrt.Exec) string {
	lines := strings.Split(strings.TrimSpace(out), "\n")
	sort.Strings(lines)
	return x.Describe() + " | " + strings.Join(lines, ",")
}

func blockedSig(x *verifrt.Exec) string {
	// multiset of blocked operation kinds with thread role (main / worker)
	var parts []string
	for _, b := range x.Blocked {
		name, op, _ := strings.Cut(b, "@")
		role := "worker"
		if name == "main" {
			role = "main"
		}
		parts = append(parts, role+"@"+op)
	}
	sort.Strings(parts)
	return strings.Join(parts, ",")
}

func main() {
	compiled := map[string]*vm.BytecodeFunction{}
	engine.Main(&engine.Spec{
		Prop:  "C16",
		Level: "model_checking",
		Rule: "6 async scenarios (await chain, two awaiters of one promise, await racing resolve, rejected promise awaited twice, task spawning two tasks, fan-out 3) x pool sizes x queue capacities; for each, every schedule of the real promise/thread-pool/AWAIT code (A) with at most B preemptions (quick B=2, thorough B=3) over scheduling points at every Mutex/WaitGroup/channel/go operation and after every release, and (B) with at most B-1 preemptions with an additional scheduling point before every statement of vm/promise.go and vm/thread_pool.go; " +
			"oracle: no deadlock, no host panic/fatal, stdout multiset equals the sequential expectation (each resumed marker exactly once); non-trivial = configurations with more than one distinct schedule outcome or at least 100 executions",
		Assume: []string{"scheduling points are at synchronisation operations and (for promise.go/thread_pool.go) statements; the interpreter loop between them runs atomically", "timers (sleep/timeout) are not modelled and not used", "accesses racing between scheduling points are reported by the supplementary free-running pass under Go's race detector (case racepass/scenarios), which decides nothing alone"},
		CaseTimeout: 15 * time.Minute,
		Setup: func(c *engine.Ctx) {
			elkrun.Init()
			vm.INIT_VALUE_STACK_SIZE = 1024
			vm.CALL_STACK_SIZE = 64
		},
		Run: func(c *engine.Ctx) {
			bound := 2
			cfgs := []poolCfg{{1, 1}, {1, 2}, {1, 8}, {2, 1}, {2, 2}, {2, 8}, {3, 8}}
			if c.Thorough {
				caseBudget = 6 * time.Minute
				bound = 3
				cfgs = []poolCfg{{1, 1}, {1, 2}, {1, 3}, {1, 8}, {2, 1}, {2, 2}, {2, 3}, {2, 8}, {3, 1}, {3, 2}, {3, 3}, {3, 8}}
			}
			// free-running companion pass under Go's race detector: the same scenarios x pool configurations on the
			// uninstrumented VM (see engine.RacePass); pool 1 / queue 1 is left out (known capacity deadlock)
			c.Case("racepass/scenarios", func(r *engine.R) {
				var l []map[string]any
				for _, sc := range scens {
					for _, pc := range cfgs {
						if pc.n == 1 && pc.q == 1 {
							continue
						}
						l = append(l, map[string]any{"name": fmt.Sprintf("%s/pool=%d/queue=%d", sc.name, pc.n, pc.q), "src": sc.src, "pool_n": pc.n, "pool_q": pc.q})
					}
				}
				b, _ := json.Marshal(l)
				f := "/verif/.work/c16-racepass.json"
				os.WriteFile(f, b, 0o644)
				rounds := "20"
				if c.Thorough {
					rounds = "200"
				}
				engine.RacePass(r, "async", 15*time.Minute, "elk", f, rounds)
			})
			for _, sc := range scens {
				for _, pc := range cfgs {
					sc, pc := sc, pc
					c.Case(fmt.Sprintf("%s/pool=%d/queue=%d/bound=%d", sc.name, pc.n, pc.q, bound), func(r *engine.R) {
						fn := compiled[sc.name]
						if fn == nil {
							f, res := elkrun.Compile(sc.src, nil)
							if f == nil {
								r.Violation("INFRA scenario does not compile "+sc.name, res.Diags+res.Panic, nil)
								return
							}
							compiled[sc.name] = f
							fn = f
						}
						explore(r, sc, pc, fn, bound)
					})
				}
			}
		},
	})
}

func explore(r *engine.R, sc scen, pc poolCfg, fn *vm.BytecodeFunction, bound int) {
	var lastOut string
	run := func(prefix []int, opts verifrt.Options) (*verifrt.Exec, string) {
		var out strings.Builder
		x := verifrt.Run(func() {
			tp := vm.NewThreadPool(pc.n, pc.q, vm.WithStdout(&out), vm.WithStderr(&out))
			v := vm.New(vm.WithStdout(&out), vm.WithStderr(&out), vm.WithThreadPool(tp))
			_, err := v.InterpretTopLevel(fn)
			if !err.IsUndefined() {
				out.WriteString("UNCAUGHT " + err.Inspect() + "\n")
			}
			tp.Close()
		}, prefix, opts)
		lastOut = out.String()
		return x, outcomeOf(lastOut, x)
	}
	expect := append([]string{}, sc.expect...)
	sort.Strings(expect)
	want := "completed | " + strings.Join(expect, ",")
	// determinism self-test
	x1, o1 := run(nil, verifrt.Options{Steps: true})
	x2, o2 := run(nil, verifrt.Options{Steps: true})
	if o1 != o2 || fmt.Sprint(x1.Events) != fmt.Sprint(x2.Events) {
		r.Violation("INFRA nondeterministic replay", fmt.Sprintf("%s\n%s\n%s", sc.name, o1, o2), nil)
		return
	}
	outcomes := map[string]int{}
	visit := func(x *verifrt.Exec, outcome string, _ int) {
		outcomes[outcome]++
		if x.Diverged != "" {
			r.Violation("INFRA replay divergence", sc.name+"\n"+x.Diverged, nil)
			return
		}
		if outcome == want {
			return
		}
		sig, detail := "", ""
		switch {
		case x.Deadlock:
			sig = fmt.Sprintf("deadlock scenario=%s pool=%d queue=%d blocked=%s", sc.name, pc.n, pc.q, blockedSig(x))
			detail = "the program's tasks all terminate sequentially, but this schedule deadlocks: " + x.Describe()
		case x.Fatal != "" || x.Panic != "":
			sig = fmt.Sprintf("host-crash scenario=%s %s", sc.name, engine.PanicSig(x.Panic+x.Fatal, x.PanicStack))
			detail = x.Describe() + "\n" + x.PanicStack
		case x.Limit:
			sig = "livelock-suspected scenario=" + sc.name
			detail = "execution exceeded the scheduling point limit"
		default:
			sig = fmt.Sprintf("wrong-output scenario=%s", sc.name)
			detail = "completed, but stdout differs from the sequential expectation"
		}
		r.Violation(sig, fmt.Sprintf("%s\npool=%d queue=%d\nexpected: %s\nobserved: %s\nstdout:\n%s\nschedule: %v", detail, pc.n, pc.q, want, outcome, lastOut, x.ChoiceList()),
			map[string]any{"scenario": sc.name, "source": sc.src, "pool": pc.n, "queue": pc.q, "schedule": x.ChoiceList()})
	}
	// pass A: scheduling points at synchronisation operations (and after releases), preemption bound `bound`
	st := sched.Explore(sched.Config{Bound: bound, MaxExecs: 3000000, Deadline: time.Now().Add(caseBudget), Opts: verifrt.Options{NoEvents: true}}, run, visit)
	// pass B: additionally a point before every statement of promise.go / thread_pool.go, preemption bound `bound`-1
	stB := sched.Explore(sched.Config{Bound: bound - 1, MaxExecs: 3000000, Deadline: time.Now().Add(caseBudget), Opts: verifrt.Options{Steps: true, NoEvents: true}}, run, visit)
	r.Count("sync_point_pass_execs", st.Execs)
	r.Count("stmt_point_pass_execs", stB.Execs)
	st.Execs += stB.Execs
	st.States += stB.States
	st.Transitions += stB.Transitions
	st.Replayed += stB.Replayed
	st.Capped = st.Capped || stB.Capped
	if stB.MaxPoints > st.MaxPoints {
		st.MaxPoints = stB.MaxPoints
	}
	r.Eval(st.Execs)
	r.AddStates(st.States)
	r.AddTrans(st.Transitions)
	r.AddValidated(st.Replayed)
	if len(outcomes) > 1 || st.Execs >= 100 {
		r.NT(1)
	}
	for o := range outcomes {
		r.Outcome(strings.SplitN(o, " ", 2)[0])
	}
	r.Count("max_points_per_execution", 0)
	if st.Capped {
		r.Capped(fmt.Sprintf("execution cap hit: %s pool=%d queue=%d", sc.name, pc.n, pc.q))
	}
	r.Sample(map[string]any{"scenario": sc.name, "pool": pc.n, "queue": pc.q, "bound": bound, "executions": st.Execs, "max_points": st.MaxPoints, "distinct_outcomes": len(outcomes)})
}
