// C13 — closures capture variables, not values.
// Bounded-exhaustive: all well-formed closure terms of package mini (≤ 3 variables, closure nesting ≤ 3,
// created at top level / in a method / in a loop body / in a closure, called in place / returned / stored in a
// list / passed to a method / passed in a tail call, read and write mixes, called before and after the
// defining frame returned) up to a node bound, each as a top-level program and as a method body, each run
// with the default value stack and again with a 64-slot stack and recursion hooks that force the stack to
// grow while closures are live. Oracle: stdout equals the reference interpreter (variables are boxes shared
// by reference).
package main

import (
	"fmt"
	"os"
	"os/exec"
	"strings"
	"time"

	"github.com/elk-language/elk/vm"

	"verifharness/elkrun"
	"verifharness/engine"
	"verifharness/mini"
)

const batchSize = 40
const smallStack = 64

// the prelude of every program: the mini helpers plus `use`
var prelude = mini.Prelude + mini.PrintDef(mini.ClUseDef(), mini.PrintOpts{})

func main() {
	if mini.IsBatchChild() {
		mini.BatchChildMain()
		return
	}
	if os.Getenv("VERIF_C13_CANARY") != "" {
		canaryChild()
		return
	}
	engine.Main(&engine.Spec{
		Prop:  "C13",
		Level: "exploration",
		Rule: "terms of the closure language of harness/mini/enum_cl.go (statements: declare, write, read, create closure, create-and-store in a list, call, call list element, " +
			"pass to a method, for-in loop, closure frame / method frame returning its closures, method frame ending in a tail call) pruned to well-formed ones (every closure captures, every variable is captured, " +
			"every closure is used, stored closures are called); layer A = closures, nesting and closure frames over ≤ 2 variables; layer B = all statements over ≤ 3 variables; layer C = B without loops, lists and tail-call frames; " +
			"quick: B with ≤ 5 statements as top-level code and as a method body, A with 6–7 as top-level code; thorough: B with ≤ 6 both ways, A with 7–8 as top-level code, C with 7 as a method body; " +
			"plus, in both tiers, the depth-3 capture matrix of harness/mini/enum_cm.go: an outer method with 1–3 variables, a closure mid with own variables none/L/P/LL/PL that first reads an ordered subset of the outer variables " +
			"(every ordered subset for ≤ 2 outer variables; none or a full permutation for 3), and a closure inner in mid that captures every ordered selection of 1–3 variables out of mid's own and the outer ones, " +
			"all read or all written in inner, then written in mid and in the outer frame, inner called inside mid, after mid returned and after the outer method returned; " +
			"every program run with the default stack and, when the " +
			"closure-free growth canary passes, again with a 64-slot initial value stack and recursion hooks after every closure creation and at the start of every closure body; " +
			"plus the loop-exit family (6 labelled loop kinds capturing the loop variable or a body local x 6 ways of leaving the loop: normal end, break, break[label], break[label] / continue[label] from a nested for-in or while loop; closures called in the frame and after it returned; differential oracle: unrelated locals declared after the loop, where they reuse its slots, or before it, must not change the output); " +
			"oracle: stdout equals the reference interpreter's; terms are distinct (no repetition); every term is non-trivial (it calls a closure that captured a variable)",
		Assume: []string{
			"the reference interpreter of harness/mini encodes the intended semantics (one box per declared variable, shared by reference; a fresh box per loop iteration for variables declared in the body and for the for-in variable)",
			"method bodies compiled one at a time (MethodCheckConcurrencyLimit=1), callee-first definition order",
		},
		Setup:            func(c *engine.Ctx) { elkrun.Init() },
		Run:              run,
		CaseTimeout:      10 * time.Minute,
		QuickDeadline:    12 * time.Minute,
		ThoroughDeadline: 40 * time.Minute,
	})
}

type layer struct {
	name     string
	opts     mini.ClOpts
	from, to int
	sites    []string
}

func layers(thorough bool) []layer {
	a := mini.ClOpts{MaxVars: 2, MaxNest: 3, Frames: "c"}
	b := mini.ClOpts{MaxVars: 3, MaxNest: 3, Loops: true, List: true, Pass: true, Frames: "cmt"}
	cc := mini.ClOpts{MaxVars: 3, MaxNest: 3, Pass: true, Frames: "cm"}
	both, top, meth := []string{"top", "method"}, []string{"top"}, []string{"method"}
	if !thorough {
		return []layer{{"B", b, 1, 5, both}, {"A", a, 6, 7, top}}
	}
	// C with 7 statements as a method body includes A with 7 as a method body
	return []layer{{"B", b, 1, 6, both}, {"A", a, 7, 8, top}, {"C", cc, 7, 7, meth}}
}

// ---------------------------------------------------------------------------------------------
// canary: does the value stack grow correctly when no closure is involved?

const canarySrc = `
def cf(n: Int): Int
  a := n + 1
  b := n + 2
  r := deep(n, 1, 2, 3, 4, 5, 6)
  a * 1000 + b + r
end
t := 7
println(cf(30))
println(cf(60))
println(cf(120))
println(cf(250))
println(cf(500))
println(t)
`
const canaryWant = "31032\n61062\n121122\n251252\n501502\n7\n"

func canaryChild() {
	elkrun.Init()
	r := mini.RunSource(mini.Prelude+canarySrc, smallStack)
	w := os.Stderr // a worker's stdout is redirected to /dev/null by elkrun.Init
	switch {
	case r.Rejected:
		fmt.Fprintln(w, "CANARY-INFRA rejected: "+r.Diags)
	case r.Panic != "":
		fmt.Fprintln(w, "CANARY-FAIL go panic: "+r.PanicSig)
	case r.Err != "":
		fmt.Fprintln(w, "CANARY-FAIL uncaught error: "+r.Err)
	case r.Stdout != canaryWant:
		fmt.Fprintf(w, "CANARY-FAIL wrong output: %q instead of %q\n", r.Stdout, canaryWant)
	default:
		fmt.Fprintln(w, "CANARY-OK")
	}
}

var canaryResult string

// canary runs the probe in a child process (a wrong stack growth writes through stale pointers; the worker's
// own heap must not be exposed to that) and caches the verdict for this worker.
func canary() string {
	if canaryResult != "" {
		return canaryResult
	}
	exe, _ := os.Executable()
	cmd := exec.Command(exe)
	cmd.Env = append(os.Environ(), "VERIF_C13_CANARY=1")
	out, err := cmd.CombinedOutput()
	s := string(out)
	switch {
	case strings.Contains(s, "CANARY-OK"):
		canaryResult = "ok"
	case strings.Contains(s, "CANARY-FAIL"):
		i := strings.Index(s, "CANARY-FAIL")
		canaryResult = strings.TrimSpace(strings.SplitN(s[i:], "\n", 2)[0])
	case strings.Contains(s, "CANARY-INFRA"):
		panic("canary program rejected: " + s)
	default:
		head := s
		if i := strings.Index(s, "fatal error:"); i >= 0 {
			head = s[i:]
		} else if i := strings.Index(s, "panic:"); i >= 0 {
			head = s[i:]
		}
		if len(head) > 300 {
			head = head[:300]
		}
		canaryResult = fmt.Sprintf("CANARY-FAIL child process died (%v): %s", err, strings.SplitN(head, "\n", 2)[0])
	}
	return canaryResult
}

// ---------------------------------------------------------------------------------------------

func run(c *engine.Ctx) {
	c.Case("growth-canary", func(r *engine.R) {
		r.Eval(1)
		r.NT(1)
		res := canary()
		if res != "ok" {
			r.Violation("stack growth corrupts the running frames (closure-free canary)",
				fmt.Sprintf("program (run with vm.INIT_VALUE_STACK_SIZE = %d slots, in a child process):\n%s\nexpected output %q\n%s\nthe growth-mode half of the exploration is skipped while this canary fails", smallStack, mini.Prelude+canarySrc, canaryWant, res),
				mini.Prelude+canarySrc)
			return
		}
		r.Outcome("canary ok")
	})
	loopExitCases(c)
	for _, mode := range []string{"default", "growth"} {
		for _, l := range layers(c.Thorough) {
			for n := l.from; n <= l.to; n++ {
				for _, site := range l.sites {
					var chunk []*mini.ClCase
					k := 0
					flush := func() {
						if len(chunk) == 0 {
							return
						}
						cs := chunk
						chunk = nil
						id := fmt.Sprintf("%s/%s/n=%d/%s/%05d %s", mode, l.name, n, site, k, cs[0].Shape())
						k++
						mode, site := mode, site
						c.Case(id, func(r *engine.R) { runChunk(r, clTerms(cs, site), mode, site) })
					}
					mini.EnumClosures(l.opts, n, func(cc *mini.ClCase) bool {
						chunk = append(chunk, cc)
						if len(chunk) == batchSize {
							flush()
						}
						return true
					})
					flush()
				}
			}
		}
		// the depth-3 capture matrix (both tiers)
		var chunk []*mini.CMCase
		k := 0
		flush := func() {
			if len(chunk) == 0 {
				return
			}
			cs := chunk
			chunk = nil
			id := fmt.Sprintf("%s/matrix/%05d %s", mode, k, cs[0].Shape())
			k++
			mode := mode
			c.Case(id, func(r *engine.R) { runChunk(r, cmTerms(cs), mode, "method") })
		}
		mini.EnumCaptureMatrix(func(cc *mini.CMCase) bool {
			chunk = append(chunk, cc)
			if len(chunk) == batchSize {
				flush()
			}
			return true
		})
		flush()
	}
}

var nameSeq int

func hasFeature(cc *term, f string) bool {
	for _, x := range cc.Features() {
		if x == f {
			return true
		}
	}
	return false
}

// term is one program of the space: a closure term at a site, or a case of the capture matrix.
type term struct {
	shape string
	feats []string
	// build returns the program and the number of leading definitions that come from the prelude
	build func(suffix string) (*mini.Program, int)
}

func (t *term) Shape() string      { return t.shape }
func (t *term) Features() []string { return t.feats }

func clTerms(cs []*mini.ClCase, site string) []*term {
	ts := make([]*term, len(cs))
	for i, cc := range cs {
		cc := cc
		ts[i] = &term{shape: cc.Shape(), feats: cc.Features(), build: func(suffix string) (*mini.Program, int) {
			return cc.Program(site, suffix), 1 // Defs[0] is `use`, part of the prelude
		}}
	}
	return ts
}

func cmTerms(cs []*mini.CMCase) []*term {
	ts := make([]*term, len(cs))
	for i, cc := range cs {
		cc := cc
		ts[i] = &term{shape: cc.Shape(), feats: []string{"capture-matrix"}, build: func(suffix string) (*mini.Program, int) {
			return cc.Program(suffix), 0
		}}
	}
	return ts
}

func runChunk(r *engine.R, cs []*term, mode, site string) {
	if mode == "growth" {
		if res := canary(); res != "ok" {
			r.Capped("growth mode skipped: the closure-free stack-growth canary fails (" + res + ")")
			r.Count("growth_mode_programs_skipped", len(cs))
			return
		}
	}
	grow := mode == "growth"
	units := make([]mini.Unit, len(cs))
	wants := make([]*mini.Outcome, len(cs))
	srcs := make([]string, len(cs))
	for i, cc := range cs {
		nameSeq++
		p, skip := cc.build(fmt.Sprintf("_%d", nameSeq))
		w, err := mini.Run(p)
		if err != nil {
			panic(fmt.Sprintf("reference interpreter failed on %s: %v", cc.Shape(), err))
		}
		wants[i] = w
		var defs strings.Builder
		for _, d := range p.Defs[skip:] {
			defs.WriteString(mini.PrintDef(d, mini.PrintOpts{Grow: grow}))
		}
		main := mini.PrintStmts(p.Main, mini.PrintOpts{Grow: grow})
		main = "do\n" + indent(main) + "end\n" // own scope: the units of a batch reuse variable names
		units[i] = mini.Unit{Defs: defs.String(), Main: main}
		srcs[i] = units[i].Defs + units[i].Main
	}
	// terms that pass a closure in a tail call, and every growth-mode run, may write through stale stack
	// pointers: they run in a child process (mini.RunBatchIsolated), the rest in this process
	res := make([]mini.UnitResult, len(units))
	var safe, risky []int
	for i, cc := range cs {
		if grow || hasFeature(cc, "tail-call") {
			risky = append(risky, i)
		} else {
			safe = append(safe, i)
		}
	}
	pick := func(idx []int) []mini.Unit {
		u := make([]mini.Unit, len(idx))
		for k, i := range idx {
			u[k] = units[i]
		}
		return u
	}
	opts := mini.BatchOpts{Prelude: prelude}
	if grow {
		opts.StackSlots = smallStack
		// top-level code keeps its locals in the top frame: one program per term so that it fits the small stack
		opts.Separate = site == "top"
	}
	for k, u := range mini.RunBatch(pick(safe), opts) {
		res[safe[k]] = u
	}
	if len(risky) > 0 {
		for k, u := range mini.RunBatchIsolated(pick(risky), opts) {
			res[risky[k]] = u
		}
		r.Count("programs_run_in_child_process", len(risky))
	}
	modeName := map[bool]string{false: "default stack", true: "growing stack"}[grow]
	for i, cc := range cs {
		u := res[i]
		r.Eval(1)
		r.NT(1)
		want := wants[i].Stdout()
		tail := ""
		if hasFeature(cc, "tail-call") {
			tail = " [term passes a closure in a tail call]"
		}
		if u.OnlyInBatch {
			tail += " (only after earlier independent terms ran in the same program)"
		}
		switch {
		case u.TimedOut:
			r.Count("child_timeouts_not_observed", 1)
			r.Capped("a child process exceeded its time limit (overloaded machine?); the term was not observed")
		case u.Rejected:
			r.Count("rejected_by_checker", 1)
			r.Note("rejected: " + cc.Shape() + ": " + firstLine(u.Diags))
			r.Outcome("rejected by the checker")
		case u.Panic != "":
			sig := fmt.Sprintf("%s: go-panic %s%s", modeName, shortPanic(u.Panic), tail)
			if hasFeature(cc, "tail-call") {
				// the frame of a tail call is reused while its variables are captured: what the stale slots hold
				// decides between a Go panic, a fatal runtime error and an Elk error, so these share a signature
				sig = fmt.Sprintf("%s: crash (Go panic, fatal runtime error or spurious Elk error) or wrong value%s", modeName, tail)
			} else if u.Panic == mini.HostCrash {
				sig = fmt.Sprintf("%s: the process running the program died (fatal Go runtime error)%s", modeName, tail)
			}
			r.Violation(sig, fmt.Sprintf("term %s (site %s)\n%s\nexpected output:\n%s\nGo panic: %s\n%s", cc.Shape(), site, srcs[i], want, u.PanicMsg, trimStack(u.Stack)), srcs[i])
		case u.Err != "":
			sig := fmt.Sprintf("%s: unexpected error %s%s", modeName, u.ErrClass, tail)
			if hasFeature(cc, "tail-call") {
				sig = fmt.Sprintf("%s: crash (Go panic, fatal runtime error or spurious Elk error) or wrong value%s", modeName, tail)
			}
			r.Violation(sig, fmt.Sprintf("term %s (site %s)\n%s\nexpected output:\n%s\nuncaught error: %s\noutput so far:\n%s", cc.Shape(), site, srcs[i], want, u.Err, u.Out), srcs[i])
		case u.Out != want:
			wl, gl := lines(want), lines(u.Out)
			j := 0
			for j < len(wl) && j < len(gl) && wl[j] == gl[j] {
				j++
			}
			origin := "end of output"
			if j < len(wl) {
				origin = wants[i].Origin[j]
			}
			sig := fmt.Sprintf("%s: wrong value at %s%s", modeName, origin, tail)
			if hasFeature(cc, "tail-call") {
				sig = fmt.Sprintf("%s: crash (Go panic, fatal runtime error or spurious Elk error) or wrong value%s", modeName, tail)
			}
			r.Violation(sig,
				fmt.Sprintf("term %s (site %s)\n%s\nfirst divergence at line %d (%s)\nexpected: %s\nobserved: %s", cc.Shape(), site, srcs[i], j+1, origin, strings.Join(wl, " "), strings.Join(gl, " ")), srcs[i])
		default:
			r.Outcome(fmt.Sprintf("ok %s lines=%d", strings.Join(cc.Features(), ","), len(lines(want))))
		}
	}
	r.Sample(srcs[len(srcs)-1])
}

func lines(s string) []string {
	s = strings.TrimSuffix(s, "\n")
	if s == "" {
		return nil
	}
	return strings.Split(s, "\n")
}

func shortPanic(sig string) string {
	parts := strings.Split(sig, " @ ")
	msg := parts[0]
	msg = strings.Replace(msg, "runtime error: invalid memory address or nil pointer dereference", "nil pointer dereference", 1)
	msg = strings.Replace(msg, "interface conversion: value.Reference is nil, not ", "nil Reference used as ", 1)
	if len(msg) > 60 {
		msg = msg[:60]
	}
	var fr []string
	for _, f := range parts[1:] {
		fr = append(fr, strings.TrimPrefix(f, "vm.(*Thread)."))
	}
	if len(fr) == 0 {
		return msg
	}
	return "in " + strings.Join(fr, "<") + ": " + msg
}

func firstLine(s string) string {
	s = strings.TrimSpace(s)
	if i := strings.IndexByte(s, '\n'); i >= 0 {
		s = s[:i]
	}
	if len(s) > 160 {
		s = s[:160]
	}
	return s
}

func trimStack(s string) string {
	if len(s) > 1500 {
		return s[:1500]
	}
	return s
}

func indent(s string) string {
	var b strings.Builder
	for _, l := range strings.SplitAfter(s, "\n") {
		if l != "" {
			b.WriteString("  " + l)
		}
	}
	return b.String()
}

var _ = vm.INIT_VALUE_STACK_SIZE
