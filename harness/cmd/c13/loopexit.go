package main

// Loop-exit family of C13: a closure captures a variable of a (labelled) loop, the loop is left in one of several
// ways, and only afterwards the closure is called — in the frame and after the frame has returned. The oracle is
// differential and needs no assumption about per-iteration binding: three unrelated locals are declared either
// AFTER the loop (where they reuse the stack slots of the finished loop) or BEFORE it; both layouts must print the same.

import (
	"fmt"
	"strings"

	"verifharness/elkrun"
	"verifharness/engine"
)

type loopKind struct {
	name, head, tail string // head opens the labelled loop and makes the capture; tail closes it
}

// %X = the exit statement(s), placed after the closure has been pushed
var loopKinds = []loopKind{
	{"for-in-loopvar", "  $outer: for i in [10, 20, 30]\n    fns << || -> i\n%X", "  end\n"},
	{"for-in-bodylocal", "  $outer: for i in [10, 20, 30]\n    v := i + 1\n    fns << || -> v\n%X", "  end\n"},
	{"for-in-bodylocal-written", "  $outer: for i in [10, 20, 30]\n    var v = i + 1\n    fns << || -> v\n    v = v + 1000\n%X", "  end\n"},
	{"numeric-for-loopvar", "  $outer: for i in 10...12\n    fns << || -> i\n%X", "  end\n"},
	{"while-bodylocal", "  i := 0\n  $outer: while i < 30\n    i += 10\n    v := i + 1\n    fns << || -> v\n%X", "  end\n"},
	{"loop-bodylocal", "  i := 0\n  $outer: loop\n    i += 10\n    v := i + 1\n    fns << || -> v\n    break if i >= 30\n%X", "  end\n"},
}

type loopExit struct{ name, code string }

// the condition `i == 20` / second iteration is written per loop kind below (%C)
var loopExits = []loopExit{
	{"normal-end", ""},
	{"break", "    break if %C\n"},
	{"break-labelled", "    break[outer] if %C\n"},
	{"nested-break-labelled", "    for j in [1, 2]\n      break[outer] if %C && j == 2\n    end\n"},
	{"nested-continue-labelled", "    for j in [1, 2]\n      continue[outer] if %C && j == 2\n    end\n"},
	{"nested-while-break-labelled", "    j := 0\n    while j < 2\n      j += 1\n      break[outer] if %C && j == 2\n    end\n"},
}

func loopExitProgram(k loopKind, e loopExit, localsAfter bool, id int) string {
	cond := "i == 20"
	if k.name == "numeric-for-loopvar" {
		cond = "i == 11"
	}
	locals := "  a := 111\n  b := 222\n  c := 333\n"
	var s strings.Builder
	fmt.Fprintf(&s, "def build%d: ArrayList[||: Int]\n  fns := ArrayList::[||: Int]()\n", id)
	if !localsAfter {
		s.WriteString(locals)
	}
	s.WriteString(strings.ReplaceAll(k.head, "%X", strings.ReplaceAll(e.code, "%C", cond)))
	s.WriteString(k.tail)
	if localsAfter {
		s.WriteString(locals)
	}
	s.WriteString("  n := 0\n  while n < fns.length\n    println \"in frame \" + fns[n].call.inspect\n    n += 1\n  end\n  println \"locals \" + (a + b + c).inspect\n  fns\nend\n")
	fmt.Fprintf(&s, "fs%d := build%d()\nm%d := 0\nwhile m%d < fs%d.length\n  println \"after return \" + fs%d[m%d].call.inspect\n  m%d += 1\nend\n", id, id, id, id, id, id, id, id)
	return s.String()
}

var loopExitSeq int

func loopExitCases(c *engine.Ctx) {
	for _, k := range loopKinds {
		k := k
		c.Case("loop-exit/"+k.name, func(r *engine.R) {
			for _, e := range loopExits {
				loopExitSeq += 2
				after := loopExitProgram(k, e, true, loopExitSeq)
				before := loopExitProgram(k, e, false, loopExitSeq+1)
				ra := elkrun.Run(after, nil)
				elkrun.ResetRuntime()
				rb := elkrun.Run(before, nil)
				elkrun.ResetRuntime()
				r.Eval(2)
				sig := "loop-exit loop=" + k.name + " exit=" + e.name
				switch {
				case ra.Rejected || rb.Rejected:
					r.Violation("INFRA loop-exit program rejected "+k.name+"/"+e.name, ra.Diags+rb.Diags, after)
				case ra.Panic != "" || rb.Panic != "":
					r.Violation(sig+": go-panic "+ra.PanicSig+rb.PanicSig, after+"\n"+ra.Stack+rb.Stack, after)
				case ra.Outcome() != rb.Outcome():
					r.NT(1)
					r.Violation(sig+": a closure over a loop variable changes its value when unrelated locals are declared after the loop instead of before it",
						fmt.Sprintf("locals declared AFTER the loop:\n%s\nprints: %s\n\nlocals declared BEFORE the loop:\n%s\nprints: %s", after, ra.Outcome(), before, rb.Outcome()), after)
				default:
					r.NT(1)
					r.Outcome("loop-exit: same output in both layouts")
				}
			}
		})
	}
}
