// C04 — lexing partitions the source faithfully; colouring never alters text.
//
// Bounded-exhaustive: every string of at most 4 (quick) / 5 (thorough) units over two alphabets (an ASCII-heavy one
// that reaches every lexing mode through its opener, and a multi-byte / invalid-UTF-8 / CRLF-heavy one; the ESC byte is
// excluded so that "strip the colour codes" is well defined).
//
// Span convention asserted (the one the lexer's own tests document, lexer/*_test.go):
//   - StartPos = (offset of the first byte, line of that byte, column of that character);
//   - EndPos   = (offset of the LAST byte of the lexeme, line and column of the last character);
//   - lines are 1 + the number of '\n' before the offset, columns are 1 + the number of characters (an invalid byte
//     counts as one character, exactly as utf8.DecodeRune segments the line) between the line start and the offset;
//   - a zero-width token is written start = n, end = n-1 (as the tests write END_OF_FILE); its end position is not checked;
//   - the end line/column of a token whose last character is '\n' is NOT checked (the tests never show such a token:
//     the lexer reports it as column 0 of the following line; counted in the evidence as end_newline_unchecked).
package main

import (
	"fmt"
	"regexp"
	"runtime/debug"
	"strings"
	"time"
	"unicode/utf8"

	"github.com/elk-language/elk/lexer"
	"github.com/elk-language/elk/token"
	"github.com/fatih/color"

	"verifharness/elkrun"
	"verifharness/engine"
)

// unit alphabets ---------------------------------------------------------------------------------------------

// ASCII-heavy: openers of every lexing mode (string, interpolation, regex + flags, word/symbol/hex/bin collections,
// char and raw-char literals, raw strings, quoted identifiers, comments, escapes, number suffixes).
var sigmaASCII = []string{
	"a", "B", "r", "w", "x", "u", "i", "s", "b", "f", "e", "1", "0", " ", "\n", "\"", "'", "`", "\\", "#", "$", "{", "}", "%", "/",
	"[", "]", ".", "_", "@", "*", "^",
}

// multi-byte / invalid UTF-8 / CRLF heavy
var sigmaMulti = []string{
	"\"", "$", "{", "}", "#", "é", "日", "😀", "\xff", "\xc3", "\r", "\n", "a", "\\", "%", "w", "[", "]", "/", "`", "'", "u", " ",
	"1", ".", "r", "@", "§", "x",
}

var ansiRe = regexp.MustCompile("\x1b\\[[0-9;]*m")

func stripANSI(s string) string { return ansiRe.ReplaceAllString(s, "") }

// embellishment lexing mode: lexer.NewWithMode takes an unexported enum; its value is discovered by a self test in
// Setup (0 = not available: the token invariants are then checked for normal-mode lexing only).
var embMode = -1

func lexWithMode(s string, m int) *lexer.Lexer {
	switch m {
	case 26:
		return lexer.NewWithMode("<main>", s, 26)
	case 25:
		return lexer.NewWithMode("<main>", s, 25)
	case 27:
		return lexer.NewWithMode("<main>", s, 27)
	case 28:
		return lexer.NewWithMode("<main>", s, 28)
	}
	return nil
}

func findEmbMode() int {
	for _, m := range []int{26, 27, 25, 28} {
		ok := func() (ok bool) {
			defer func() {
				if recover() != nil {
					ok = false
				}
			}()
			l := lexWithMode("a `1` b", m)
			var types []token.Type
			for i := 0; i < 10; i++ {
				t := l.Next()
				if t.Type == token.END_OF_FILE {
					break
				}
				types = append(types, t.Type)
			}
			return len(types) == 3 && types[0] == token.TEXT && types[1] == token.INT && types[2] == token.TEXT
		}()
		if ok {
			return m
		}
	}
	return 0
}

// reference positions ----------------------------------------------------------------------------------------

type lineMap struct {
	s string
	// for every byte offset 0..len: line, column and whether the offset is a character boundary
	line, col []int32
	boundary  []bool
}

func (lm *lineMap) build(s string) {
	n := len(s) + 1
	lm.s = s
	if cap(lm.line) < n {
		lm.line = make([]int32, n)
		lm.col = make([]int32, n)
		lm.boundary = make([]bool, n)
	}
	lm.line, lm.col, lm.boundary = lm.line[:n], lm.col[:n], lm.boundary[:n]
	line, col := int32(1), int32(1)
	i := 0
	for i < len(s) {
		r, size := utf8.DecodeRuneInString(s[i:])
		for k := 0; k < size; k++ {
			lm.line[i+k], lm.col[i+k] = line, col
			lm.boundary[i+k] = k == 0
		}
		i += size
		if r == '\n' {
			line++
			col = 1
		} else {
			col++
		}
	}
	lm.line[len(s)], lm.col[len(s)], lm.boundary[len(s)] = line, col, true
}

var digitsRe = regexp.MustCompile(`\d+`)
var tickRe = regexp.MustCompile("`[^`]*`")

func desc(t *token.Token) string {
	if t == nil {
		return "<start>"
	}
	if t.Type == token.ERROR {
		m := tickRe.ReplaceAllString(t.Value, "`…`")
		m = digitsRe.ReplaceAllString(m, "N")
		return "ERROR(" + m + ")"
	}
	return t.Type.TypeName()
}

// family names the lexical construct a token belongs to: the signature of a position defect is the construct whose
// scanning left the lexer's line/column/cursor bookkeeping wrong (the token itself for a wrong end position, the
// previous token for a wrong start position), so that every manifestation of one bookkeeping bug shares a signature.
func family(t *token.Token, src string) string {
	if t == nil {
		return "<start of input>"
	}
	switch t.Type {
	case token.STRING_CONTENT:
		return "string literal content"
	case token.DOLLAR_IDENTIFIER, token.INSTANCE_VARIABLE, token.PUBLIC_CONSTANT:
		return "quoted or prefixed identifier"
	case token.CHAR_LITERAL, token.RAW_CHAR_LITERAL:
		return "character literal"
	case token.ERROR:
		if a := t.Span().StartPos.ByteOffset; a >= 0 && a < len(src) && src[a] == '\\' {
			return "invalid escape sequence token" // produced by scanInvalid*Escape
		}
		switch {
		case strings.Contains(t.Value, "char literal") || strings.Contains(t.Value, "character literal"):
			return "character literal"
		case strings.Contains(t.Value, "invalid sized") || strings.Contains(t.Value, "invalid big numeric"):
			return "number literal with a malformed size suffix"
		}
	}
	return desc(t)
}

type finding struct {
	sig, detail string
}

// checkTokens lexes s (mode 0 = normal, otherwise the embellished-text mode) and checks the span invariants.
// It returns the first violated invariant (later ones are consequences of the first), or nil.
func checkTokens(s string, mode int, lm *lineMap, st *stats) *finding {
	var l *lexer.Lexer
	where := "normal"
	if mode == 0 {
		l = lexer.New(s)
	} else {
		l = lexWithMode(s, mode)
		where = "embellished"
	}
	prevEnd := 0 // first byte not covered by the previous tokens
	var prev *token.Token
	prevVerified := true // the previous token's end line/column was checked (it is not when the token ends in a newline)
	n := 0
	for {
		t := l.Next()
		if t.Type == token.END_OF_FILE {
			break
		}
		n++
		if n > 4*len(s)+8 {
			return &finding{"lexer emits unboundedly many tokens mode=" + where, fmt.Sprintf("more than %d tokens for a %d-byte input", n, len(s))}
		}
		st.tokens++
		st.types[t.Type] = true
		sp := t.Span()
		a, b := sp.StartPos.ByteOffset, sp.EndPos.ByteOffset
		show := func() string {
			return fmt.Sprintf("token #%d %s span (%d,%d:%d)-(%d,%d:%d) after %s; input %q, mode %s", n, t.String(), a, sp.StartPos.Line, sp.StartPos.Column,
				b, sp.EndPos.Line, sp.EndPos.Column, desc(prev), s, where)
		}
		// inside the input
		if a < 0 || b+1 > len(s) || a > len(s) {
			return &finding{"span outside the input: " + family(t, s), show()}
		}
		if b < a-1 {
			return &finding{"span ends before it starts: " + family(t, s), show()}
		}
		// source order, no overlap
		if a < prevEnd {
			return &finding{"span overlaps the previous token: " + family(t, s) + " after " + family(prev, s), show()}
		}
		// start position. When text was skipped between the previous token (whose own span has just been verified) and
		// this one, the skipping code is the construct at fault, not the previous token.
		startCulprit := family(prev, s)
		if gap := s[prevEnd:a]; gap != "" && prevVerified {
			if strings.ContainsAny(gap, "#/*") {
				startCulprit = "comment skipped between tokens"
			} else {
				startCulprit = "whitespace skipped between tokens"
			}
		}
		if !lm.boundary[a] {
			return &finding{"token line/column disagrees with its byte offset, construct: " + startCulprit, "token starts inside a multi-byte character: " + show()}
		}
		if int32(sp.StartPos.Line) != lm.line[a] {
			return &finding{"token line/column disagrees with its byte offset, construct: " + startCulprit,
				"start line: " + show() + fmt.Sprintf("; byte %d is on line %d", a, lm.line[a])}
		}
		if int32(sp.StartPos.Column) != lm.col[a] {
			return &finding{"token line/column disagrees with its byte offset, construct: " + startCulprit,
				"start column: " + show() + fmt.Sprintf("; byte %d is column %d of its line", a, lm.col[a])}
		}
		verified := false
		if b == a-1 {
			st.empty++
			verified = prevVerified
		} else {
			// end position: last byte of the last character
			if !lm.boundary[b+1] {
				return &finding{"token line/column disagrees with its byte offset, construct: " + family(t, s), "token ends inside a multi-byte character: " + show()}
			}
			if s[b] == '\n' {
				st.endNL++
				verified = t.Type == token.NEWLINE // a NEWLINE token is the ordinary case; any other token swallowing a newline is suspect
			} else {
				verified = true
				if int32(sp.EndPos.Line) != lm.line[b] {
					return &finding{"token line/column disagrees with its byte offset, construct: " + family(t, s),
						"end line: " + show() + fmt.Sprintf("; byte %d is on line %d", b, lm.line[b])}
				}
				if int32(sp.EndPos.Column) != lm.col[b] {
					return &finding{"token line/column disagrees with its byte offset, construct: " + family(t, s),
						"end column: " + show() + fmt.Sprintf("; the character ending at byte %d is column %d of its line", b, lm.col[b])}
				}
			}
			if lm.line[a] != lm.line[b] {
				st.multiline++
			}
		}
		prevEnd = b + 1
		prev = t
		prevVerified = verified
	}
	return nil
}

type stats struct {
	tokens, empty, endNL, multiline, coloured int
	types                                     map[token.Type]bool
}

func guarded(f func() *finding, what string) (res *finding) {
	defer func() {
		if p := recover(); p != nil {
			stk := string(debug.Stack())
			res = &finding{"panic in " + what + ": " + engine.PanicSig(fmt.Sprint(p), stk), fmt.Sprintf("%v\n%s", p, stk)}
		}
	}()
	return f()
}

func checkInput(r *engine.R, s string, lm *lineMap, st *stats) {
	lm.build(s)
	r.Eval(1)
	report := func(f *finding) {
		if f == nil {
			return
		}
		d := f.detail
		if !strings.Contains(d, "input ") {
			d = fmt.Sprintf("input %q\n%s", s, d)
		}
		r.Violation(f.sig, d, map[string]any{"input": s, "bytes": fmt.Sprintf("% x", s)})
	}
	bad := false
	if f := guarded(func() *finding { return checkTokens(s, 0, lm, st) }, "lexer"); f != nil {
		report(f)
		bad = true
	}
	if embMode > 0 {
		if f := guarded(func() *finding { return checkTokens(s, embMode, lm, st) }, "lexer (embellished text)"); f != nil {
			report(f)
			bad = true
		}
	}
	if f := guarded(func() *finding {
		out := lexer.Colorize(s)
		if got := stripANSI(out); got != s {
			return &finding{"Colorize alters the text", fmt.Sprintf("input %q: Colorize gave %q, without the colour codes %q", s, out, got)}
		}
		if out != s {
			st.coloured++
		}
		return nil
	}, "Colorize"); f != nil {
		report(f)
		bad = true
	}
	if f := guarded(func() *finding {
		out := lexer.ColorizeEmbellishedText(s)
		if got := stripANSI(out); got != s {
			return &finding{"ColorizeEmbellishedText alters the text", fmt.Sprintf("input %q: ColorizeEmbellishedText gave %q, without the colour codes %q", s, out, got)}
		}
		return nil
	}, "ColorizeEmbellishedText"); f != nil {
		report(f)
		bad = true
	}
	if !bad {
		return
	}
	r.Count("inputs_with_a_violation", 1)
}

func nontrivial(s string) bool {
	// more than plain identifier/space text: contains a mode opener, a newline, or a non-ASCII byte
	for i := 0; i < len(s); i++ {
		c := s[i]
		if c >= 0x80 || strings.IndexByte("\n\r\"'`\\#$%/[{", c) >= 0 {
			return true
		}
	}
	return false
}

func runBlock(r *engine.R, units []string, prefix string, depth int) {
	lm := &lineMap{}
	st := &stats{types: map[token.Type]bool{}}
	var rec func(s string, d int)
	rec = func(s string, d int) {
		checkInput(r, s, lm, st)
		if nontrivial(s) {
			r.NT(1)
		}
		if d == 0 {
			return
		}
		for _, u := range units {
			rec(s+u, d-1)
		}
	}
	if depth < 0 {
		return
	}
	rec(prefix, depth)
	r.Count("tokens", st.tokens)
	r.Count("zero_width_tokens", st.empty)
	r.Count("end_newline_unchecked", st.endNL)
	r.Count("multi_line_tokens", st.multiline)
	r.Count("inputs_with_colour_codes_added", st.coloured)
	for t := range st.types {
		r.Outcome("token " + t.TypeName())
	}
	r.Sample(prefix)
}

func main() {
	engine.Main(&engine.Spec{
		Prop:  "C04",
		Level: "exploration",
		Rule: "every string of at most 4 (quick) / 5 (thorough) units over two alphabets: 32 ASCII units (openers of every lexing mode) and 29 units " +
			"with 2/3/4-byte characters, invalid UTF-8 bytes (0xFF, a lone 0xC3), CR, LF (ESC excluded); each input is lexed in normal mode and in " +
			"embellished-text mode and passed through Colorize and ColorizeEmbellishedText with colours on; checked: spans inside the input, in order, " +
			"not overlapping, start/end on character boundaries, start line/column and end line/column equal to the position computed from the byte offset, " +
			"strip-ANSI(colourised) == input; a case is non-trivial when the input contains a mode opener, a newline or a non-ASCII byte; outcomes = distinct token types seen",
		Assume: []string{"the ESC byte (0x1B) does not occur in inputs", "end line/column of a token whose last character is a newline is not asserted (convention undocumented)"},
		Setup: func(c *engine.Ctx) {
			elkrun.Init()
			color.NoColor = false
			embMode = findEmbMode()
		},
		CaseTimeout:      120 * time.Second,
		QuickDeadline:    12 * time.Minute,
		ThoroughDeadline: 60 * time.Minute,
		Run:              run,
	})
}

func run(c *engine.Ctx) {
	maxLen := 4
	if c.Thorough {
		maxLen = 5
	}
	c.Case("selftest", func(r *engine.R) {
		// the oracle itself: known-good and known-shape inputs
		if stripANSI(color.New(color.FgRed).Sprint("x")) != "x" || color.New(color.FgRed).Sprint("x") == "x" {
			panic("colour codes are not being produced or not stripped: the colouring oracle would be vacuous")
		}
		if embMode <= 0 {
			r.Note("embellished-text lexing mode not reachable through lexer.NewWithMode: token invariants checked in normal mode only")
		} else {
			r.Note(fmt.Sprintf("embellished-text lexing mode = %d", embMode))
		}
		r.Eval(1)
	})
	for ai, units := range [][]string{sigmaASCII, sigmaMulti} {
		units := units
		name := []string{"ascii", "multi"}[ai]
		c.Case(name+"/short", func(r *engine.R) {
			// lengths 0 and 1 and 2
			lm := &lineMap{}
			st := &stats{types: map[token.Type]bool{}}
			checkInput(r, "", lm, st)
			for _, u := range units {
				checkInput(r, u, lm, st)
				r.NT(1)
			}
		})
		for _, u1 := range units {
			for _, u2 := range units {
				p := u1 + u2
				c.Case(fmt.Sprintf("%s/%q", name, p), func(r *engine.R) {
					runBlock(r, units, p, maxLen-2)
				})
			}
		}
	}
}
