// Package engine is the shared driver of every check: it shards a deterministically enumerated case
// space over worker subprocesses, journals each case so that host crashes and hangs are attributed to
// the case that caused them, matches violations against /verif/known_findings.jsonl, writes replay
// files and the evidence file, and implements the exit-code contract of MANIFEST.json.
package engine

import (
	"bufio"
	"encoding/json"
	"flag"
	"fmt"
	"os"
	"os/exec"
	"path/filepath"
	"regexp"
	"runtime"
	"runtime/debug"
	"sort"
	"strconv"
	"strings"
	"sync"
	"time"
)

const Root = "/verif"

// Spec describes a check.
type Spec struct {
	Prop      string // property id, e.g. "C06"
	Level     string // evidence level: model_checking | exploration | ...
	Rule      string // how cases are enumerated, what is non-trivial
	Assume    []string
	Workers   int           // default: 16
	CaseTimeout time.Duration // per-case watchdog, default 60s
	QuickDeadline    time.Duration // default 8 min
	ThoroughDeadline time.Duration // default 60 min
	// Run enumerates the whole case space in a fixed order, calling c.Case for each case. It is executed
	// in every worker (each worker only executes the cases it owns) and must be deterministic.
	Run func(c *Ctx)
	// Setup, if set, runs once in each worker before Run (e.g. init the Elk runtime).
	Setup func(c *Ctx)
	// HangIsViolation: whether a case exceeding the watchdog (confirmed by a solo re-run) is a violation.
	HangIsViolation bool
	// CrashOK: when set and returns true for the crashing case id, a host crash is not a violation (not used by default).
	Finish func(a *Agg) // optional parent-side post-processing (cross-case oracles)
}

// Violation is one property violation found in a case.
type Violation struct {
	Sig    string `json:"sig"`    // defect signature (matched against known findings)
	Detail string `json:"detail"` // human-readable expected vs observed
	CaseID string `json:"case_id"`
	Index  int64  `json:"index"`
	Input  any    `json:"input,omitempty"` // the minimal case written out (source, ops, schedule)
}

// R records what one case did.
type R struct {
	Evals      int64            `json:"ev,omitempty"`
	Nontrivial int64            `json:"nt,omitempty"`
	States     int64            `json:"st,omitempty"`
	Trans      int64            `json:"tr,omitempty"`
	Validated  int64            `json:"tv,omitempty"`
	Outcomes   []string         `json:"oc,omitempty"`
	Viol       []Violation      `json:"v,omitempty"`
	Samples    []any            `json:"sa,omitempty"`
	Counters   map[string]int64 `json:"cn,omitempty"`
	Notes      []string         `json:"no,omitempty"`
	Inexhaustive string         `json:"inex,omitempty"`
	caseID     string
	index      int64
	ctx        *Ctx
}

func (r *R) Eval(n int)       { r.Evals += int64(n) }
func (r *R) NT(n int)         { r.Nontrivial += int64(n) }
func (r *R) AddStates(n int)  { r.States += int64(n) }
func (r *R) AddTrans(n int)   { r.Trans += int64(n) }
func (r *R) AddValidated(n int) { r.Validated += int64(n) }
func (r *R) Outcome(class string) {
	for _, o := range r.Outcomes {
		if o == class {
			return
		}
	}
	if len(r.Outcomes) < 64 {
		r.Outcomes = append(r.Outcomes, class)
	}
}
func (r *R) Count(name string, n int) {
	if r.Counters == nil {
		r.Counters = map[string]int64{}
	}
	r.Counters[name] += int64(n)
}
func (r *R) Note(s string) {
	if len(r.Notes) < 8 {
		r.Notes = append(r.Notes, s)
	}
}
// Capped marks that this case did not explore its space completely.
func (r *R) Capped(why string) { r.Inexhaustive = why }

// Sample offers a sample; only a few per worker are kept.
func (r *R) Sample(x any) {
	if r.ctx.samplesKept < 6 && len(r.Samples) < 2 {
		r.Samples = append(r.Samples, x)
		r.ctx.samplesKept++
	}
}

// Violation records a violation of the property in this case.
func (r *R) Violation(sig, detail string, input any) {
	// keep at most 3 per signature per case (blocks can contain thousands)
	n := 0
	for _, v := range r.Viol {
		if v.Sig == sig {
			n++
		}
	}
	r.Count("violations_total", 1)
	if n >= 2 {
		return
	}
	r.Viol = append(r.Viol, Violation{Sig: sig, Detail: trunc(detail, 1500), CaseID: r.caseID, Index: r.index, Input: input})
}

func trunc(s string, n int) string {
	if len(s) > n {
		return s[:n] + "…"
	}
	return s
}

// Ctx is passed to Spec.Run.
type Ctx struct {
	Spec     *Spec
	Tier     string
	Thorough bool
	Seed     int64
	Triage   bool

	worker   bool
	shard, n int
	skipTo   int64  // execute only cases with index >= skipTo
	only     string // execute only this case id (replay / solo re-run)
	onlyIdx  int64
	next     int64
	journal  *os.File
	deadline time.Time
	capped   int64
	samplesKept int
	cur      struct {
		sync.Mutex
		idx   int64
		id    string
		start time.Time
		on    bool
	}
	inproc *Agg // in-process mode (replay)
}

// Owns reports whether the next Case call would execute here (lets callers skip expensive preparation).
func (c *Ctx) owns(idx int64, id string) bool {
	if c.only != "" {
		return id == c.only
	}
	if c.onlyIdx >= 0 {
		return idx == c.onlyIdx
	}
	if idx < c.skipTo {
		return false
	}
	return int(idx%int64(c.n)) == c.shard
}

// Case declares one case of the space. f runs only in the worker that owns the case.
func (c *Ctx) Case(id string, f func(r *R)) {
	idx := c.next
	c.next++
	if !c.owns(idx, id) {
		return
	}
	if f := os.Getenv("VERIF_CASES"); f != "" && !strings.Contains(id, f) {
		return // development aid: run only the cases whose id contains $VERIF_CASES (results go to .work/ov-out)
	}
	if !c.deadline.IsZero() && time.Now().After(c.deadline) {
		c.capped++
		return
	}
	r := &R{caseID: id, index: idx, ctx: c}
	c.jwrite(map[string]any{"s": idx, "id": id})
	c.cur.Lock()
	c.cur.idx, c.cur.id, c.cur.start, c.cur.on = idx, id, time.Now(), true
	c.cur.Unlock()
	func() {
		defer func() {
			if p := recover(); p != nil {
				st := string(debug.Stack())
				r.Violation("go-panic: "+PanicSig(fmt.Sprint(p), st), fmt.Sprintf("Go panic in harness goroutine: %v\n%s", p, trunc(st, 3000)), nil)
			}
		}()
		f(r)
	}()
	c.cur.Lock()
	c.cur.on = false
	c.cur.Unlock()
	c.jwrite(map[string]any{"e": idx, "r": r})
}

func (c *Ctx) jwrite(m map[string]any) {
	if c.journal == nil {
		return
	}
	b, err := json.Marshal(m)
	if err != nil {
		b, _ = json.Marshal(map[string]any{"err": err.Error()})
	}
	b = append(b, '\n')
	c.journal.Write(b)
}

var frameRe = regexp.MustCompile(`github\.com/elk-language/elk/[\w/]+\.\(?\*?\w*\)?\.?[\w.\[\]]+`)
var numRe = regexp.MustCompile(`0x[0-9a-f]+|\b\d+\b`)

// PanicSig normalises a panic message + stack into "<msg> @ <frame1> @ <frame2>" using the first two
// frames inside the elk module (skipping the runtime and harness).
func PanicSig(msg, stack string) string {
	msg = strings.TrimSpace(strings.SplitN(msg, "\n", 2)[0])
	msg = numRe.ReplaceAllString(msg, "N")
	if len(msg) > 100 {
		msg = msg[:100]
	}
	sig := msg
	nf := 0
	seen := ""
	for _, f := range frameRe.FindAllString(stack, -1) {
		f = strings.TrimPrefix(f, "github.com/elk-language/elk/")
		if strings.HasPrefix(f, "verifrt") || f == seen {
			continue
		}
		// skip the generic re-panic site of the interpreter loop
		if strings.HasSuffix(f, "vm.(*Thread).run.func1") || strings.HasSuffix(f, "vm.(*Thread).run.func") {
			continue
		}
		seen = f
		sig += " @ " + f
		nf++
		if nf == 2 {
			break
		}
	}
	return sig
}

// Agg is the parent's aggregate.
type Agg struct {
	Evals, Nontrivial, States, Trans, Validated int64
	Cases     int64
	Outcomes  map[string]int64
	Viol      []Violation
	Samples   []any
	Counters  map[string]int64
	Notes     []string
	Capped    int64
	Inex      []string
	Crashes   int
	Hangs     int
}

func newAgg() *Agg { return &Agg{Outcomes: map[string]int64{}, Counters: map[string]int64{}} }

func (a *Agg) add(r *R) {
	a.Cases++
	a.Evals += r.Evals
	a.Nontrivial += r.Nontrivial
	a.States += r.States
	a.Trans += r.Trans
	a.Validated += r.Validated
	for _, o := range r.Outcomes {
		a.Outcomes[o]++
	}
	a.Viol = append(a.Viol, r.Viol...)
	if len(a.Samples) < 8 {
		a.Samples = append(a.Samples, r.Samples...)
	}
	for k, v := range r.Counters {
		a.Counters[k] += v
	}
	if len(a.Notes) < 20 {
		a.Notes = append(a.Notes, r.Notes...)
	}
	if r.Inexhaustive != "" && len(a.Inex) < 10 {
		a.Inex = append(a.Inex, r.caseIDOr()+": "+r.Inexhaustive)
	}
}

func (r *R) caseIDOr() string { return r.caseID }

// AddViolation lets Spec.Finish add cross-case violations.
func (a *Agg) AddViolation(v Violation) { a.Viol = append(a.Viol, v) }

// Known finding entry.
type Finding struct {
	Status   string `json:"status"` // known | fixed
	Property string `json:"property"`
	Sig      string `json:"signature"`
	What     string `json:"what"`
	Commit   string `json:"commit,omitempty"`
	First    string `json:"first_case,omitempty"`
}

func loadFindings(prop string) (known map[string]Finding) {
	known = map[string]Finding{}
	f, err := os.Open(filepath.Join(Root, "known_findings.jsonl"))
	if err != nil {
		return
	}
	defer f.Close()
	sc := bufio.NewScanner(f)
	sc.Buffer(make([]byte, 1<<20), 1<<20)
	for sc.Scan() {
		line := strings.TrimSpace(sc.Text())
		if line == "" || strings.HasPrefix(line, "#") || strings.HasPrefix(line, "fixed:") {
			continue
		}
		var fd Finding
		if json.Unmarshal([]byte(line), &fd) != nil {
			continue
		}
		if fd.Property == prop && fd.Status == "known" {
			known[fd.Sig] = fd
		}
	}
	return
}

// Main is the entry point of every check binary.
func Main(spec *Spec) {
	tier := flag.String("tier", "quick", "quick|thorough")
	replay := flag.String("replay", "", "replay file")
	triage := flag.Bool("triage", false, "report every signature, do not stop")
	workerSpec := flag.String("worker", "", "internal: shard/n")
	journal := flag.String("journal", "", "internal")
	skip := flag.Int64("skip", 0, "internal")
	onlyIdx := flag.Int64("only-idx", -1, "internal: run only this case index")
	deadlineUnix := flag.Int64("deadline", 0, "internal")
	nworkers := flag.Int("workers", 0, "number of workers")
	flag.Parse()
	if spec.Workers == 0 {
		spec.Workers = 16
	}
	if *nworkers > 0 {
		spec.Workers = *nworkers
	}
	if spec.CaseTimeout == 0 {
		spec.CaseTimeout = 60 * time.Second
	}
	if spec.Level == "" {
		spec.Level = "model_checking"
	}
	if t := os.Getenv("VERIF_TIER"); t != "" && !flagSet("tier") {
		*tier = t
	}
	seed, _ := strconv.ParseInt(os.Getenv("VERIF_SEED"), 10, 64)
	ctx := &Ctx{Spec: spec, Tier: *tier, Thorough: *tier == "thorough", Seed: seed, Triage: *triage, onlyIdx: *onlyIdx, n: 1}
	if *workerSpec != "" {
		runWorker(ctx, *workerSpec, *journal, *skip, *deadlineUnix)
		return
	}
	if *replay != "" {
		os.Exit(runReplay(ctx, *replay))
	}
	os.Exit(runParent(ctx))
}

func flagSet(name string) bool {
	set := false
	flag.Visit(func(f *flag.Flag) {
		if f.Name == name {
			set = true
		}
	})
	return set
}

func runWorker(c *Ctx, ws, journal string, skip, deadlineUnix int64) {
	parts := strings.Split(ws, "/")
	c.shard, _ = strconv.Atoi(parts[0])
	c.n, _ = strconv.Atoi(parts[1])
	c.worker = true
	c.skipTo = skip
	if deadlineUnix > 0 {
		c.deadline = time.Unix(deadlineUnix, 0)
	}
	f, err := os.OpenFile(journal, os.O_CREATE|os.O_WRONLY|os.O_APPEND, 0o644)
	if err != nil {
		fmt.Fprintln(os.Stderr, "journal:", err)
		os.Exit(2)
	}
	c.journal = f
	// watchdog
	go func() {
		for {
			time.Sleep(500 * time.Millisecond)
			c.cur.Lock()
			on, idx, st := c.cur.on, c.cur.idx, c.cur.start
			c.cur.Unlock()
			to := c.Spec.CaseTimeout
			if c.onlyIdx >= 0 {
				to *= 3
			}
			if on && time.Since(st) > to {
				c.jwrite(map[string]any{"hang": idx})
				buf := make([]byte, 1<<20)
				n := runtime.Stack(buf, true)
				os.Stderr.Write(buf[:n])
				os.Exit(3)
			}
		}
	}()
	if c.Spec.Setup != nil {
		c.Spec.Setup(c)
	}
	c.Spec.Run(c)
	c.jwrite(map[string]any{"done": true, "capped": c.capped, "total": c.next})
	os.Exit(0)
}

type jline struct {
	S    *int64 `json:"s"`
	ID   string `json:"id"`
	E    *int64 `json:"e"`
	R    *R     `json:"r"`
	Hang *int64 `json:"hang"`
	Done bool   `json:"done"`
	Capped int64 `json:"capped"`
	Total  int64 `json:"total"`
}

type shardResult struct {
	done       bool
	lastStart  int64
	lastID     string
	open       bool // a case started but not ended
	hang       bool
	capped     int64
	total      int64
}

func readJournal(path string, from int64, agg *Agg, mu *sync.Mutex) (sr shardResult, newOffset int64) {
	f, err := os.Open(path)
	if err != nil {
		return sr, from
	}
	defer f.Close()
	f.Seek(from, 0)
	rd := bufio.NewReaderSize(f, 1<<20)
	off := from
	for {
		line, err := rd.ReadBytes('\n')
		if err != nil {
			break
		}
		off += int64(len(line))
		var jl jline
		if json.Unmarshal(line, &jl) != nil {
			continue
		}
		switch {
		case jl.S != nil:
			sr.lastStart, sr.lastID, sr.open = *jl.S, jl.ID, true
		case jl.E != nil:
			sr.open = false
			if jl.R != nil {
				jl.R.caseID = sr.lastID
				jl.R.index = *jl.E
				mu.Lock()
				agg.add(jl.R)
				mu.Unlock()
			}
		case jl.Hang != nil:
			sr.hang = true
		case jl.Done:
			sr.done = true
			sr.capped = jl.Capped
			sr.total = jl.Total
		}
	}
	return sr, off
}

func runParent(c *Ctx) int {
	spec := c.Spec
	t0 := time.Now()
	work := filepath.Join(Root, ".work", fmt.Sprintf("%s-%s-%d", spec.Prop, c.Tier, os.Getpid()))
	os.RemoveAll(work)
	os.MkdirAll(work, 0o755)
	defer os.RemoveAll(work)
	dl := spec.QuickDeadline
	if dl == 0 {
		dl = 12 * time.Minute
	}
	if c.Thorough {
		dl = spec.ThoroughDeadline
		if dl == 0 {
			dl = 60 * time.Minute
		}
	}
	if s := os.Getenv("VERIF_DEADLINE_S"); s != "" {
		if n, err := strconv.Atoi(s); err == nil {
			dl = time.Duration(n) * time.Second
		}
	}
	deadline := time.Now().Add(dl)
	agg := newAgg()
	var mu sync.Mutex
	var wg sync.WaitGroup
	exe, _ := os.Executable()
	var total int64
	var infraErr []string
	for w := 0; w < spec.Workers; w++ {
		wg.Add(1)
		go func(w int) {
			defer wg.Done()
			jpath := filepath.Join(work, fmt.Sprintf("w%d.jsonl", w))
			var off int64
			skip := int64(0)
			restarts := 0
			for {
				errPath := filepath.Join(work, fmt.Sprintf("w%d.%d.stderr", w, restarts))
				ef, _ := os.Create(errPath)
				cmd := exec.Command(exe, "--tier", c.Tier, "--worker", fmt.Sprintf("%d/%d", w, spec.Workers), "--journal", jpath,
					"--skip", strconv.FormatInt(skip, 10), "--deadline", strconv.FormatInt(deadline.Unix(), 10))
				cmd.Stdout = ef // workers must not write to the parent's stdout
				cmd.Stderr = ef
				cmd.Env = append(os.Environ(), "VERIF_WORKER=1")
				err := cmd.Run()
				ef.Close()
				var sr shardResult
				sr, off = readJournal(jpath, off, agg, &mu)
				if sr.done {
					mu.Lock()
					agg.Capped += sr.capped
					if sr.total > total {
						total = sr.total
					}
					mu.Unlock()
					return
				}
				if !sr.open {
					// died outside a case (setup or enumeration): infrastructure error
					mu.Lock()
					infraErr = append(infraErr, fmt.Sprintf("worker %d died outside a case: %v\n%s", w, err, tail(errPath, 3000)))
					mu.Unlock()
					return
				}
				stderr := tail(errPath, 200000)
				if sr.hang {
					// re-run the case alone with a 3x watchdog before believing it
					if ok := soloRerun(c, exe, work, w, sr.lastStart, agg, &mu); !ok {
						mu.Lock()
						agg.Hangs++
						if spec.HangIsViolation {
							agg.Viol = append(agg.Viol, Violation{Sig: "hang: " + sr.lastID, Detail: fmt.Sprintf("case exceeded the %v watchdog twice (alone: %v)\n%s", spec.CaseTimeout, 3*spec.CaseTimeout, trunc(stderr, 2000)), CaseID: sr.lastID, Index: sr.lastStart})
						} else {
							agg.Notes = append(agg.Notes, "hang (not a violation of this property): "+sr.lastID)
							agg.Inex = append(agg.Inex, "case hung: "+sr.lastID)
						}
						mu.Unlock()
					}
				} else {
					mu.Lock()
					agg.Crashes++
					agg.Viol = append(agg.Viol, Violation{Sig: "host-crash: " + crashSig(stderr), Detail: fmt.Sprintf("worker process died (%v) while running this case\n%s", err, trunc(crashHead(stderr), 3000)), CaseID: sr.lastID, Index: sr.lastStart})
					mu.Unlock()
				}
				skip = sr.lastStart + 1
				restarts++
				if restarts > 400 {
					mu.Lock()
					infraErr = append(infraErr, fmt.Sprintf("worker %d: more than 400 restarts", w))
					mu.Unlock()
					return
				}
			}
		}(w)
	}
	wg.Wait()
	if len(infraErr) > 0 {
		for _, e := range infraErr {
			fmt.Fprintln(os.Stderr, "INFRA-ERROR:", e)
		}
		return 2
	}
	if spec.Finish != nil {
		spec.Finish(agg)
	}
	return report(c, agg, total, time.Since(t0))
}

func soloRerun(c *Ctx, exe, work string, w int, idx int64, agg *Agg, mu *sync.Mutex) bool {
	jpath := filepath.Join(work, fmt.Sprintf("solo%d-%d.jsonl", w, idx))
	cmd := exec.Command(exe, "--tier", c.Tier, "--worker", "0/1", "--journal", jpath, "--only-idx", strconv.FormatInt(idx, 10))
	ef, _ := os.Create(jpath + ".stderr")
	cmd.Stdout, cmd.Stderr = ef, ef
	cmd.Run()
	ef.Close()
	tmp := newAgg()
	var m2 sync.Mutex
	sr, _ := readJournal(jpath, 0, tmp, &m2)
	if sr.done && tmp.Cases == 1 {
		mu.Lock()
		agg.Cases += tmp.Cases
		agg.Evals += tmp.Evals
		agg.Nontrivial += tmp.Nontrivial
		agg.States += tmp.States
		agg.Trans += tmp.Trans
		agg.Validated += tmp.Validated
		agg.Viol = append(agg.Viol, tmp.Viol...)
		for k, v := range tmp.Outcomes {
			agg.Outcomes[k] += v
		}
		for k, v := range tmp.Counters {
			agg.Counters[k] += v
		}
		mu.Unlock()
		return true
	}
	return false
}

func tail(path string, n int) string {
	b, err := os.ReadFile(path)
	if err != nil {
		return ""
	}
	if len(b) > n {
		// keep head (panic message is at the start of the crash dump) – find "panic:" or "fatal error:"
		s := string(b)
		i := strings.Index(s, "panic:")
		if j := strings.Index(s, "fatal error:"); j >= 0 && (i < 0 || j < i) {
			i = j
		}
		if i >= 0 {
			s = s[i:]
			if len(s) > n {
				s = s[:n]
			}
			return s
		}
		return s[len(s)-n:]
	}
	return string(b)
}

func crashHead(stderr string) string {
	i := strings.Index(stderr, "panic:")
	if j := strings.Index(stderr, "fatal error:"); j >= 0 && (i < 0 || j < i) {
		i = j
	}
	if i >= 0 {
		return stderr[i:]
	}
	return stderr
}

func crashSig(stderr string) string {
	h := crashHead(stderr)
	first := strings.SplitN(h, "\n", 2)[0]
	return PanicSig(first, h)
}

// outDir is where evidence and replay files go: /verif, unless VERIF_OUT_DIR is set (development runs
// against a deliberately modified tree must not overwrite the real evidence).
func outDir() string {
	if os.Getenv("VERIF_CASES") != "" && os.Getenv("VERIF_OUT_DIR") == "" {
		os.MkdirAll("/verif/.work/ov-out", 0o755)
		return "/verif/.work/ov-out"
	}
	if d := os.Getenv("VERIF_OUT_DIR"); d != "" {
		return d
	}
	return Root
}

func report(c *Ctx, agg *Agg, total int64, wall time.Duration) int {
	spec := c.Spec
	known := loadFindings(spec.Prop)
	// group violations by signature
	bySig := map[string][]Violation{}
	var order []string
	for _, v := range agg.Viol {
		if _, ok := bySig[v.Sig]; !ok {
			order = append(order, v.Sig)
		}
		bySig[v.Sig] = append(bySig[v.Sig], v)
	}
	sort.Strings(order)
	newViol := 0
	knownHits := map[string]int{}
	os.MkdirAll(filepath.Join(outDir(), "replays", spec.Prop), 0o755)
	for _, sig := range order {
		vs := bySig[sig]
		sort.Slice(vs, func(i, j int) bool { return vs[i].Index < vs[j].Index })
		if k, ok := known[sig]; ok {
			knownHits[sig] = len(vs)
			fmt.Printf("KNOWN-FINDING: property=%s %s [signature: %s; %d case(s) this run, first: %s]\n", spec.Prop, k.What, sig, len(vs), vs[0].CaseID)
			continue
		}
		newViol++
		path := filepath.Join(outDir(), "replays", spec.Prop, sanitize(sig)+".json")
		writeJSON(path, map[string]any{"property": spec.Prop, "tier": c.Tier, "signature": sig, "case_id": vs[0].CaseID, "index": vs[0].Index,
			"detail": vs[0].Detail, "input": vs[0].Input, "occurrences_this_run": len(vs)})
		fmt.Printf("VIOLATION property=%s replay=%s\n", spec.Prop, path)
		fmt.Printf("  signature: %s\n  case: %s\n  detail: %s\n", sig, vs[0].CaseID, indent(trunc(vs[0].Detail, 1200)))
	}
	exhaustive := agg.Capped == 0 && len(agg.Inex) == 0
	cov := map[string]any{
		"evaluations":         agg.Evals,
		"distinct_nontrivial": agg.Nontrivial,
		"rule":                spec.Rule,
		"samples":             agg.Samples,
		"exhaustive":          exhaustive,
		"cases":               agg.Cases,
		"cases_in_space":      total,
		"cases_skipped_by_deadline": agg.Capped,
		"distinct_outcomes":   len(agg.Outcomes),
		"outcome_histogram":   topOutcomes(agg.Outcomes, 12),
		"counters":            agg.Counters,
		"known_finding_hits":  knownHits,
		"host_crashes":        agg.Crashes,
		"hangs":               agg.Hangs,
	}
	if agg.States > 0 || agg.Trans > 0 {
		cov["states"] = agg.States
		cov["transitions"] = agg.Trans
		cov["traces_validated_against_impl"] = agg.Validated
	}
	if len(agg.Inex) > 0 {
		cov["not_exhaustive_because"] = agg.Inex
	}
	if len(agg.Notes) > 0 {
		cov["notes"] = agg.Notes
	}
	if len(agg.Samples) == 0 {
		cov["samples"] = []any{"(no sample recorded)"}
	}
	ev := map[string]any{
		"property_id": spec.Prop,
		"tier":        c.Tier,
		"seed":        c.Seed,
		"level":       spec.Level,
		"coverage":    cov,
		"assumptions": spec.Assume,
		"wall_s":      wall.Seconds(),
		"violations":  newViol,
	}
	writeJSON(filepath.Join(outDir(), "evidence", spec.Prop+".json"), ev)
	fmt.Printf("%s %s: cases=%d evaluations=%d nontrivial=%d states=%d transitions=%d outcomes=%d known=%d new-violations=%d exhaustive=%v wall=%.1fs\n",
		spec.Prop, c.Tier, agg.Cases, agg.Evals, agg.Nontrivial, agg.States, agg.Trans, len(agg.Outcomes), len(knownHits), newViol, exhaustive, wall.Seconds())
	if newViol > 0 {
		return 1
	}
	return 0
}

func topOutcomes(m map[string]int64, n int) map[string]int64 {
	type kv struct {
		k string
		v int64
	}
	var l []kv
	for k, v := range m {
		l = append(l, kv{k, v})
	}
	sort.Slice(l, func(i, j int) bool { return l[i].v > l[j].v || (l[i].v == l[j].v && l[i].k < l[j].k) })
	out := map[string]int64{}
	for i, e := range l {
		if i >= n {
			break
		}
		out[trunc(e.k, 120)] = e.v
	}
	return out
}

func indent(s string) string { return strings.ReplaceAll(s, "\n", "\n    ") }

var sanRe = regexp.MustCompile(`[^A-Za-z0-9_.=-]+`)

func sanitize(sig string) string {
	s := sanRe.ReplaceAllString(sig, "_")
	if len(s) > 80 {
		s = s[:80]
	}
	// distinct signatures must never share a replay file
	var h uint32 = 2166136261
	for i := 0; i < len(sig); i++ {
		h = (h ^ uint32(sig[i])) * 16777619
	}
	return fmt.Sprintf("%s-%08x", strings.Trim(s, "_"), h)
}

func writeJSON(path string, v any) {
	b, err := json.MarshalIndent(v, "", " ")
	if err != nil {
		b = []byte(fmt.Sprintf(`{"error":%q}`, err.Error()))
	}
	os.MkdirAll(filepath.Dir(path), 0o755)
	os.WriteFile(path, append(b, '\n'), 0o644)
}

// runReplay re-executes the single case named in a replay file, in a worker subprocess, and reports
// whether the violation reproduces (exit 1) or not (exit 0).
func runReplay(c *Ctx, path string) int {
	b, err := os.ReadFile(path)
	if err != nil {
		fmt.Fprintln(os.Stderr, err)
		return 2
	}
	var rf struct {
		Tier   string `json:"tier"`
		Sig    string `json:"signature"`
		CaseID string `json:"case_id"`
		Index  int64  `json:"index"`
	}
	if err := json.Unmarshal(b, &rf); err != nil {
		fmt.Fprintln(os.Stderr, err)
		return 2
	}
	exe, _ := os.Executable()
	work := filepath.Join(Root, ".work", fmt.Sprintf("%s-replay-%d", c.Spec.Prop, os.Getpid()))
	os.RemoveAll(work)
	os.MkdirAll(work, 0o755)
	defer os.RemoveAll(work)
	jpath := filepath.Join(work, "r.jsonl")
	cmd := exec.Command(exe, "--tier", rf.Tier, "--worker", "0/1", "--journal", jpath, "--only-idx", strconv.FormatInt(rf.Index, 10))
	ef, _ := os.Create(jpath + ".stderr")
	cmd.Stdout, cmd.Stderr = ef, ef
	runErr := cmd.Run()
	ef.Close()
	agg := newAgg()
	var mu sync.Mutex
	sr, _ := readJournal(jpath, 0, agg, &mu)
	if !sr.done && sr.open {
		fmt.Printf("replay: case %s killed the worker (%v)\n%s\n", rf.CaseID, runErr, trunc(crashHead(tail(jpath+".stderr", 100000)), 2000))
		fmt.Printf("VIOLATION property=%s replay=%s\n", c.Spec.Prop, path)
		return 1
	}
	for _, v := range agg.Viol {
		fmt.Printf("replay: signature %s\n  %s\n", v.Sig, indent(v.Detail))
	}
	if len(agg.Viol) > 0 {
		fmt.Printf("VIOLATION property=%s replay=%s\n", c.Spec.Prop, path)
		return 1
	}
	fmt.Printf("replay: case %s (index %d) ran without violation\n", rf.CaseID, rf.Index)
	return 0
}
