package engine

import (
	"bytes"
	"context"
	"fmt"
	"os"
	"os/exec"
	"path/filepath"
	"sort"
	"strings"
	"time"
)

// RacePass runs the free-running companion binary bin/racepass (built with `go build -race` from /repo's
// working tree WITHOUT the scheduler overlay) on the same harness bodies as an E1 check, and turns every
// distinct data-race report of Go's race detector into a violation.
//
// Why: the controlled scheduler only switches threads at synchronisation operations, so an access that is
// not protected by any of them is invisible to the exploration (and the scheduler's hand-offs are
// happens-before edges that would blind a race detector running under it). The race detector has no false
// positives, so this pass can only add genuine reports; it is a supplement to — never a replacement of —
// the exhaustive schedule exploration, and is reported separately in the evidence (counter racepass_runs).
//
// The signature names the two racing functions (not addresses, goroutine ids or line numbers).
func RacePass(r *R, label string, timeout time.Duration, args ...string) {
	bin := filepath.Join(filepath.Dir(os.Args[0]), "racepass")
	if os.Getenv("VERIF_OVERLAY") != "" {
		bin += "-ov"
	}
	if _, err := os.Stat(bin); err != nil {
		r.Violation("INFRA racepass binary missing", bin+": "+err.Error(), nil)
		return
	}
	ctx, cancel := context.WithTimeout(context.Background(), timeout)
	defer cancel()
	cmd := exec.CommandContext(ctx, bin, args...)
	for _, e := range os.Environ() {
		if !strings.HasPrefix(e, "VERIF_WORKER") { // the child is not an engine worker (elkrun.Init would silence its stdout)
			cmd.Env = append(cmd.Env, e)
		}
	}
	cmd.Env = append(cmd.Env, "GORACE=halt_on_error=0 exitcode=0")
	var stdout, stderr bytes.Buffer
	cmd.Stdout = &stdout
	cmd.Stderr = &stderr
	err := cmd.Run()
	if ctx.Err() != nil {
		r.Capped("race pass " + label + " did not finish within " + timeout.String())
	} else if err != nil {
		r.Violation("INFRA racepass failed "+label, err.Error()+"\n"+head(stderr.String(), 4000), nil)
		return
	}
	// "RUNS n" lines printed by racepass
	for _, l := range strings.Split(stdout.String(), "\n") {
		var n int
		if _, e := fmt.Sscanf(l, "RUNS %d", &n); e == nil {
			r.Count("racepass_runs", n)
			r.Eval(n)
		}
		if strings.HasPrefix(l, "SKIP ") {
			r.Note("racepass " + label + ": " + l)
		}
	}
	all := ParseRaces(stderr.String())
	var reports []RaceReport
	for _, rep := range all {
		if rep.ChanOnly {
			r.Count("racepass_channel_close_vs_send_reports_ignored", 1)
			continue
		}
		reports = append(reports, rep)
	}
	r.Count("racepass_reports", len(reports))
	seen := map[string]bool{}
	var sigs []string
	for _, rep := range reports {
		if !seen[rep.Sig] {
			seen[rep.Sig] = true
			sigs = append(sigs, rep.Sig)
		}
	}
	sort.Strings(sigs)
	for _, s := range sigs {
		for _, rep := range reports {
			if rep.Sig == s {
				r.Violation("data race "+label+": "+s, rep.Text, map[string]any{"racepass": args})
				break
			}
		}
	}
	if len(sigs) == 0 {
		r.Outcome("racepass " + label + ": no race reported")
	} else {
		r.Outcome("racepass " + label + ": races reported")
	}
}

type RaceReport struct {
	Sig  string
	Text string
	// ChanOnly: both accesses are inside the Go runtime's channel operations (closechan vs chansend/selectgo).
	// The race detector models close as a write and send as a read of the channel to flag "send racing close";
	// that is an ordering diagnostic, not a memory-model data race — the outcome (a panic in the sender) is
	// defined, and Elk turns it into ChannelClosedPushError. Such reports are counted and ignored.
	ChanOnly bool
}

// ParseRaces extracts the race detector's reports from a process's stderr.
func ParseRaces(s string) []RaceReport {
	var out []RaceReport
	for _, blk := range strings.Split(s, "==================") {
		if !strings.Contains(blk, "WARNING: DATA RACE") {
			continue
		}
		var accs []string
		chanOnly := true
		lines := strings.Split(blk, "\n")
		for i := 0; i < len(lines); i++ {
			l := strings.TrimSpace(lines[i])
			kind := ""
			for _, k := range []string{"Previous atomic write", "Previous atomic read", "Previous write", "Previous read", "Atomic write", "Atomic read", "Write", "Read"} {
				if strings.HasPrefix(l, k+" at ") {
					kind = strings.ToLower(strings.TrimPrefix(k, "Previous "))
					break
				}
			}
			if kind == "" {
				continue
			}
			// frames follow: "  func()" / "      file:line +0x.." pairs until an empty line
			fn := ""
			first := ""
			for j := i + 1; j < len(lines) && strings.TrimSpace(lines[j]) != ""; j += 2 {
				f := strings.TrimSpace(lines[j])
				if k := strings.LastIndex(f, "("); k > 0 {
					f = f[:k]
				}
				if first == "" {
					first = f
					if !strings.HasPrefix(f, "runtime.closechan") && !strings.HasPrefix(f, "runtime.chansend") && !strings.HasPrefix(f, "runtime.selectgo") && !strings.HasPrefix(f, "runtime.chanrecv") {
						chanOnly = false
					}
				}
				if strings.Contains(f, "elk-language/elk/") {
					fn = f
					break
				}
			}
			if fn == "" {
				fn = first
			}
			fn = strings.TrimPrefix(fn, "github.com/elk-language/elk/")
			accs = append(accs, kind+" in "+fn)
		}
		sort.Strings(accs)
		out = append(out, RaceReport{Sig: strings.Join(accs, " <-> "), Text: head(strings.TrimSpace(blk), 6000), ChanOnly: chanOnly && len(accs) > 0})
	}
	return out
}

func head(s string, n int) string {
	if len(s) > n {
		return s[:n] + "\n…"
	}
	return s
}
