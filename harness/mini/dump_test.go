package mini

import (
	"os"
	"testing"
)

func TestDump(t *testing.T) {
	for name, p := range handPrograms() {
		os.WriteFile("/verif/.work/c14/hand_"+name+".elk", []byte(Prelude+PrintProgram(p, PrintOpts{})), 0o644)
	}
}
