package mini

import (
	"testing"

	"verifharness/elkrun"
)

func v(n string) *Var           { return &Var{Name: n} }
func i(n int) *Int              { return &Int{V: n} }
func pr(t string) *Print        { return &Print{Tag: t} }
func pe(e Expr) *PrintE         { return &PrintE{E: e} }
func ps(e Expr) *PrintE         { return &PrintE{E: e, Show: true} }
func add(l, r Expr) *Bin        { return &Bin{Op: "+", L: l, R: r} }
func ge(l, r Expr) *Bin         { return &Bin{Op: ">=", L: l, R: r} }
func set(n string, e Expr) Stmt { return &ExprS{E: &Assign{Name: n, E: e}} }

func handPrograms() map[string]*Program {
	m := map[string]*Program{}

	// control flow: defer, do/catch/finally, labelled loops, break/continue, return through finally
	mkf1 := func(name string, pv int) *Def {
		return &Def{Name: name, Ret: TInt, Throws: []string{"a", "b"},
			Body: []Stmt{
				&Let{Name: "p", E: i(pv)},
				&Defer{Tag: "d1"},
				pr("s"),
				&Loop{Label: "l1", Ctr: "k1", Limit: 3, Body: []Stmt{
					pr("o"),
					&Defer{Tag: "d2"},
					&Loop{While: true, Ctr: "k2", Limit: 2, Body: []Stmt{
						pr("i"),
						&Do{Body: []Stmt{&Do{
							Body: []Stmt{
								&If{C: ge(v("k1"), i(2)), Then: []Stmt{&Throw{Sym: "a"}}, Else: []Stmt{&Continue{}}},
								pr("unreach"),
							},
							Catches: []Catch{
								{Sym: "a", Body: []Stmt{pr("ca"), &If{C: ge(v("p"), i(1)), Then: []Stmt{&Break{Label: "l1"}}, Else: []Stmt{&Throw{Sym: "b"}}}}},
								{Bind: "y", Body: []Stmt{pr("cy")}},
							},
						}}, Finally: []Stmt{pr("fin")}},
						pr("after-do"),
					}},
					pr("o-end"),
				}},
				pr("e"),
			}, Res: i(9)}
	}
	f2 := &Def{Name: "f2", Ret: TInt, Body: []Stmt{
		&Loop{Ctr: "k1", Limit: 2, Body: []Stmt{
			&Do{Body: []Stmt{pr("b"), &Return{E: i(5)}}, Finally: []Stmt{pr("fin"), &Break{}}},
		}},
		pr("after"),
	}, Res: i(1)}
	f3 := &Def{Name: "f3", Ret: TInt, Throws: []string{"b"}, Body: []Stmt{
		&Loop{Ctr: "k1", Limit: 2, Bind: "r", Body: []Stmt{
			&Do{Body: []Stmt{pr("b"), &Throw{Sym: "a"}}, Catches: []Catch{{Sym: "a", Body: []Stmt{pr("c"), &Break{E: i(7)}}}}},
		}},
		ps(v("r")),
		&Loop{Ctr: "k2", Limit: 1, Bind: "q", Body: []Stmt{pr("x")}},
		ps(v("q")),
		&Do{Body: []Stmt{&Throw{Sym: "a"}}, Catches: []Catch{{Sym: "a", Body: []Stmt{pr("c2")}}}, Finally: []Stmt{pr("f2")}},
		&Do{Body: []Stmt{&Do{Body: []Stmt{&Throw{Sym: "a"}}, Finally: []Stmt{pr("f3")}}}, Catches: []Catch{{Sym: "a", Body: []Stmt{&Throw{Sym: "b"}}}}},
	}, Res: i(1)}
	m["cf"] = &Program{Defs: []*Def{mkf1("f1a", 1), mkf1("f1b", 0), f2, f3}, Main: []Stmt{
		GuardedCall("f1a"), GuardedCall("f1b"), GuardedCall("f2"), GuardedCall("f3"),
	}}

	// logic
	mk := func(t string, e Expr, w bool) Expr { return &Mark{Tag: t, E: e, Wide: w} }
	var main []Stmt
	for _, w := range []bool{true, false} {
		main = append(main,
			&Let{Name: "x1", E: &Logic{Op: "||", L: mk("a", &Nil{}, w), R: mk("b", i(0), w)}}, ps(v("x1")),
			ps(&Logic{Op: "&&", L: &Logic{Op: "||", L: mk("a", &Nil{}, w), R: mk("b", &Bool{}, w)}, R: mk("c", &Sym{Name: "s"}, w)}),
			ps(&Logic{Op: "??", L: mk("a", &Bool{}, w), R: mk("b", i(3), w)}),
			ps(&Logic{Op: "??", L: mk("a", &Nil{}, w), R: &Logic{Op: "&&", L: mk("b", i(0), w), R: mk("c", &Sym{Name: "s"}, w)}}),
			&If{C: &Logic{Op: "&&", L: mk("a", i(0), w), R: mk("b", &Nil{}, w)}, Then: []Stmt{pr("T")}, Else: []Stmt{pr("F")}},
		)
	}
	m["logic"] = &Program{Main: main}

	// closures
	fn0 := func(body []Stmt, res Expr) *Fn { return &Fn{Ret: TInt, Body: body, Res: res} }
	use := &Def{Name: "use", Params: []Param{{"c", TFn0}}, Ret: TInt, Body: []Stmt{
		&Let{Name: "a", E: &CallFn{F: v("c")}}, pe(v("a")),
	}, Res: &CallFn{F: v("c")}}
	mkd := &Def{Name: "mk", Params: []Param{{"p", TInt}}, Ret: ListT(TFn0), Body: []Stmt{
		&Let{Name: "x", E: add(v("p"), i(1))},
		&Let{Name: "f", T: TFn0, E: fn0([]Stmt{set("x", add(v("x"), i(1))), &Defer{Tag: "df"}}, v("x"))},
		&Let{Name: "g", T: TFn0, E: fn0(nil, add(v("x"), v("p")))},
		pe(&CallFn{F: v("f")}),
		set("p", i(100)),
		pe(&CallFn{F: v("g")}),
	}, Res: &ListLit{Elems: []Expr{v("f"), v("g")}}}
	m["closures"] = &Program{Defs: []*Def{use, mkd}, Main: []Stmt{
		&Let{Name: "l", E: &Call{Fn: "mk", Args: []Expr{i(10)}}},
		pe(&CallFn{F: &Index{L: v("l"), I: 0}}),
		pe(&CallFn{F: &Index{L: v("l"), I: 1}}),
		pe(&Call{Fn: "use", Args: []Expr{&Index{L: v("l"), I: 0}}}),
		&Let{Name: "y", E: i(1)},
		&Let{Name: "acc", T: ListT(TFn0), E: &ListLit{}},
		&ForIn{Var: "n", From: 1, To: 2, Body: []Stmt{
			&Let{Name: "j", E: add(v("n"), v("y"))},
			&Push{List: "acc", E: fn0([]Stmt{set("j", add(v("j"), i(1))), set("y", add(v("y"), i(10)))}, add(v("j"), add(v("y"), v("n"))))},
		}},
		pe(&CallFn{F: &Index{L: v("acc"), I: 0}}),
		pe(&CallFn{F: &Index{L: v("acc"), I: 1}}),
		pe(&CallFn{F: &Index{L: v("acc"), I: 0}}),
		pe(v("y")),
		&Let{Name: "mk2", E: &Fn{Ret: FnT(TFn0), Res: &Fn{Ret: TFn0, Body: []Stmt{&Let{Name: "z", E: i(5)}}, Res: fn0([]Stmt{set("z", add(v("z"), v("y")))}, v("z"))}}},
		&Let{Name: "h", E: &CallFn{F: &CallFn{F: v("mk2")}}},
		pe(&CallFn{F: v("h")}),
		set("y", i(1)),
		pe(&CallFn{F: v("h")}),
		pe(&Call{Fn: "use", Args: []Expr{fn0([]Stmt{set("y", add(v("y"), i(1)))}, v("y"))}}),
	}}
	return m
}

// TestHandPrograms validates the printer and the reference interpreter against the real VM on hand-written
// programs. The programs avoid the constructs that are known to be defective on the pinned tree (finally skipped
// when a catch clause is left abruptly; stack growth), which the checks C14/C13 report.
func TestHandPrograms(t *testing.T) {
	elkrun.Init()
	for name, p := range handPrograms() {
		want, err := Run(p)
		if err != nil {
			t.Fatalf("%s: interpreter: %v", name, err)
		}
		src := Prelude + PrintProgram(p, PrintOpts{})
		res := elkrun.Run(src, nil)
		if res.Rejected || res.Panic != "" || res.Err != "" {
			t.Errorf("%s: %s\n%s\n%s", name, res.Outcome(), res.Diags, src)
			continue
		}
		if res.Stdout != want.Stdout() {
			t.Errorf("%s: mismatch\n--- source\n%s\n--- elk\n%s\n--- reference\n%s", name, src, res.Stdout, want.Stdout())
		} else {
			t.Logf("%s: %d lines agree", name, len(want.Trace))
		}
		// the growth-hook rendering must at least be accepted by the checker
		if _, r := elkrun.Compile(Prelude+PrintProgram(p, PrintOpts{Grow: true}), nil); r.Rejected || r.Panic != "" {
			t.Errorf("%s (grow): %s %s", name, r.Diags, r.Panic)
		}
	}
}
