package mini

import (
	"testing"
)

func TestCountCl(t *testing.T) {
	a := ClOpts{MaxVars: 2, MaxNest: 3, Frames: "c"}
	cc := ClOpts{MaxVars: 3, MaxNest: 3, Pass: true, Frames: "cmt"}
	for _, x := range []struct {
		o ClOpts
		n int
	}{{a, 8}, {cc, 6}, {cc, 7}} {
		cnt := 0
		EnumClosures(x.o, x.n, func(c *ClCase) bool { cnt++; return true })
		t.Logf("%+v n=%d count=%d", x.o, x.n, cnt)
	}
}
