package mini

import (
	"fmt"
	"strings"
)

// ---------------------------------------------------------------------------------------------
// Enumerator 3: closure terms (C13 and its reusers).
//
// A term is a block of statements over at most MaxVars Int variables (x = 1, y = 10, z = 100 in order of
// declaration; loop variables i…; method parameters p = 1000) and closures of type ||: Int:
//
//	D        v := c                          declare the next variable
//	W v      v = v + 1                       write (in the scope of v or in a closure that captured it)
//	X v w    v = v + w                       cross write (optional)
//	P v      println(v)                      read
//	C f      println(f.())                   call a visible closure (a local, a returned closure, a list element)
//	U f      println(use(f))                 pass a closure to a method that calls it twice
//	M{B;v}   var fN: ||: Int = -> B; v end   create a closure whose body is the block B and whose value is v
//	Q{B;v}   acc << -> B; v end              create a closure and store it in the list acc (frame level only)
//	A        println(acc[i].()) for every i   call all closures stored so far, in order (outside loops)
//	L{B}     for iN in 1...2; B; end         loop; iN is a fresh read-only variable per iteration
//	Fc{B}    rN := (-> B; <closures of B> end).()     a closure frame: the closures created at the top level of B
//	                                         are returned (one: itself, two: as a list) and callable afterwards
//	Fm{B}    def mkN(p: Int) …; rN := mkN(1000)       the same with a method frame (sees no outer variable)
//	Ft{B}    def mkN(p: Int): Int; B; use(f); end; println(mkN(1000))   method frame ending in a tail call that
//	                                         passes its last closure
//
// Well-formedness (pruned during enumeration): every closure refers to a variable or closure declared outside
// its own body; every declared variable is referred to from a closure deeper than its declaration; every
// closure is called, passed, stored or returned, every returned closure is called and every stored closure is
// called by a later A; the term calls at least one closure; a variable is read or written in its own frame only after a closure captured it (earlier
// it would only change the initial value); no variable is printed twice in a row.
// Size = number of statements (closure values and returned lists are free).

type ClOpts struct {
	MaxVars    int    // ≤ 3
	MaxNest    int    // closure nesting ≤ 3
	Loops      bool   // L
	List       bool   // Q and A
	Pass       bool   // U
	Frames     string // subset of "cmt"
	CrossWrite bool   // X
}

// clStmt is a statement of the term language.
type clStmt struct {
	kind  byte // D W X P C U M Q A L F
	v, w  int  // variable ids
	f     clFn
	id    int // M: new closure id; L: loop var id; F: frame id
	idx   int // A
	body  []clStmt
	res   int   // M Q: result variable id
	fkind byte  // F: c m t
	outs  []int // F: ids of the closures returned (c, m) / the closure passed (t)
	param int   // F m/t: id of the parameter variable
}

// clFn refers to a callable closure.
type clFn struct {
	kind byte // 'f' local closure fN, 'r' returned binding rN, 'e' element rN[idx]
	id   int
	idx  int
	fnID int // id of the closure variable this reference stands for (usage tracking); for r/e the output slot
}

type clVar struct {
	id       int
	name     string
	writable bool
	level    int // closure level of the declaration
}

type clScope struct {
	vars []clVar
	fns  []clFn
}

func (s *clScope) withVar(v clVar) *clScope {
	n := &clScope{vars: append(append([]clVar(nil), s.vars...), v), fns: s.fns}
	return n
}

func (s *clScope) withFn(f clFn) *clScope {
	n := &clScope{vars: s.vars, fns: append(append([]clFn(nil), s.fns...), f)}
	return n
}

type clState struct {
	nvars, nfns, nframes, nouts int
	captured                    uint64 // variable ids referred to from a deeper closure
	refs                        uint64 // variable ids referred to in the closure body being generated
	fnRefs                      uint64 // closure ids referred to in the closure body being generated
	fnUsed                      uint64 // closure ids called / passed / stored / returned
	outUsed                     uint64 // output slots called
	pushes                      int    // elements of acc so far (frame level, outside loops)
	calls                       int    // closure calls so far
	pendingQ                    int    // closures stored since the last A
	usesList                    bool
}

type clPos struct {
	level   int // closure level (closure bodies and closure frames entered)
	nest    int // closure nesting within the current frame
	inLoop  bool
	frame   bool   // at the top level block of the program (pushes / frames / A allowed)
	outer   uint64 // variable ids declared outside the current closure body
	outerFn uint64
}

type clGen struct {
	o     ClOpts
	yield func(*ClCase) bool
	stop  bool
}

// ClCase is one closure term.
type ClCase struct {
	stmts    []clStmt
	usesList bool
	Size     int
}

// EnumClosures enumerates all well-formed terms with exactly `nodes` statements, in a fixed order.
func EnumClosures(o ClOpts, nodes int, yield func(*ClCase) bool) {
	g := &clGen{o: o, yield: yield}
	top := clPos{frame: true}
	g.block(&clScope{}, clState{}, top, nodes, nil, 0, func(stmts []clStmt, sc *clScope, st clState, used int) {
		if used != nodes || g.stop {
			return
		}
		if !g.closeScope(stmts, st, false) || st.calls == 0 || st.pendingQ > 0 {
			return
		}
		c := &ClCase{stmts: cloneStmts(stmts), usesList: st.usesList, Size: used}
		if !g.yield(c) {
			g.stop = true
		}
	})
}

func cloneStmts(s []clStmt) []clStmt { return append([]clStmt(nil), s...) }

// closeScope checks the obligations of what was declared directly in the block.
func (g *clGen) closeScope(stmts []clStmt, st clState, frameOutputs bool) bool {
	for _, s := range stmts {
		switch s.kind {
		case 'D':
			if st.captured&(1<<uint(s.v)) == 0 {
				return false
			}
		case 'M':
			if !frameOutputs && st.fnUsed&(1<<uint(s.id)) == 0 {
				return false
			}
		case 'F':
			if s.fkind != 't' {
				for i := range s.outs {
					if st.outUsed&(1<<uint(s.id*2+i)) == 0 {
						return false
					}
				}
			}
		}
	}
	return true
}

type clK func(stmts []clStmt, sc *clScope, st clState, used int)

// block enumerates all statement sequences of at most `budget` statements.
func (g *clGen) block(sc *clScope, st clState, pos clPos, budget int, acc []clStmt, used int, k clK) {
	if g.stop {
		return
	}
	k(acc, sc, st, used)
	if budget == 0 {
		return
	}
	next := func(s clStmt, sc2 *clScope, st2 clState, cost int) {
		if g.stop {
			return
		}
		g.block(sc2, st2, pos, budget-cost, append(acc[:len(acc):len(acc)], s), used+cost, k)
	}
	ref := func(st clState, v clVar) clState {
		st.refs |= 1 << uint(v.id)
		if pos.level > v.level {
			st.captured |= 1 << uint(v.id)
		}
		return st
	}
	useFn := func(st clState, f clFn) clState {
		switch f.kind {
		case 'f':
			st.fnUsed |= 1 << uint(f.id)
			st.fnRefs |= 1 << uint(f.id)
		default:
			st.outUsed |= 1 << uint(f.fnID)
			st.fnRefs |= 1 << 63 // a returned closure is a captured variable too when used in a deeper closure
		}
		return st
	}
	// D
	if st.nvars < g.o.MaxVars {
		v := clVar{id: st.nvars, name: varName(st.nvars), writable: true, level: pos.level}
		st2 := st
		st2.nvars++
		next(clStmt{kind: 'D', v: v.id}, sc.withVar(v), st2, 1)
	}
	// a read or write in the variable's own frame matters only once a closure has captured the variable
	// (before that it merely changes the initial value)
	live := func(v clVar) bool { return pos.level > v.level || st.captured&(1<<uint(v.id)) != 0 }
	// W, X
	for _, v := range sc.vars {
		if !v.writable || !live(v) {
			continue
		}
		next(clStmt{kind: 'W', v: v.id}, sc, ref(st, v), 1)
	}
	if g.o.CrossWrite {
		for _, v := range sc.vars {
			if !v.writable {
				continue
			}
			if !live(v) {
				continue
			}
			for _, w := range sc.vars {
				if w.id != v.id {
					next(clStmt{kind: 'X', v: v.id, w: w.id}, sc, ref(ref(st, v), w), 1)
				}
			}
		}
	}
	// P (not twice in a row)
	for _, v := range sc.vars {
		if !live(v) || (len(acc) > 0 && acc[len(acc)-1].kind == 'P' && acc[len(acc)-1].v == v.id) {
			continue
		}
		next(clStmt{kind: 'P', v: v.id}, sc, ref(st, v), 1)
	}
	// C, U
	for _, f := range sc.fns {
		st2 := useFn(st, f)
		st2.calls++
		next(clStmt{kind: 'C', f: f}, sc, st2, 1)
	}
	if g.o.Pass {
		for _, f := range sc.fns {
			st2 := useFn(st, f)
			st2.calls++
			next(clStmt{kind: 'U', f: f}, sc, st2, 1)
		}
	}
	// A
	if g.o.List && pos.frame && !pos.inLoop && st.pushes > 0 && (st.pendingQ > 0 || acc[len(acc)-1].kind != 'A') {
		st2 := st
		st2.calls++
		st2.pendingQ = 0
		next(clStmt{kind: 'A', idx: st.pushes}, sc, st2, 1)
	}
	// M, Q
	if pos.nest < g.o.MaxNest {
		kinds := []byte{'M'}
		if g.o.List && pos.frame {
			kinds = append(kinds, 'Q')
		}
		for _, kind := range kinds {
			kind := kind
			g.closure(sc, st, pos, budget-1, func(body []clStmt, res int, st2 clState, bodyCost int) {
				s := clStmt{kind: kind, body: cloneStmts(body), res: res}
				sc2 := sc
				if kind == 'M' {
					s.id = st2.nfns
					st2.nfns++
					sc2 = sc.withFn(clFn{kind: 'f', id: s.id})
				} else {
					st2.usesList = true
					st2.pendingQ++
					if pos.inLoop {
						// counted when the loop ends
						st2.pushes += 0
					} else {
						st2.pushes++
					}
				}
				next(s, sc2, st2, 1+bodyCost)
			})
		}
	}
	// L
	if g.o.Loops && !pos.inLoop && st.nvars < g.o.MaxVars && budget >= 2 {
		iv := clVar{id: st.nvars, name: fmt.Sprintf("i%d", st.nvars), writable: false, level: pos.level}
		st1 := st
		st1.nvars++
		lpos := pos
		lpos.inLoop = true
		pushesBefore := st.pushes
		g.block(sc.withVar(iv), st1, lpos, budget-1, nil, 0, func(body []clStmt, bsc *clScope, st2 clState, bodyCost int) {
			if bodyCost == 0 || !g.closeScope(body, st2, false) {
				return
			}
			// a loop is only interesting if it creates a closure or calls one
			if !containsKind(body, "MQCU") {
				return
			}
			// closures pushed in the body: two per Q after the loop
			st2.pushes = pushesBefore + 2*countKind(body, 'Q')
			next(clStmt{kind: 'L', id: iv.id, body: cloneStmts(body)}, sc, st2, 1+bodyCost)
		})
	}
	// F
	if pos.frame && !pos.inLoop && budget >= 2 {
		for _, fk := range []byte(g.o.Frames) {
			fk := fk
			fst := st
			fst.nframes++
			fid := st.nframes
			var fsc *clScope
			fpos := clPos{inLoop: false, frame: false}
			param := -1
			switch fk {
			case 'c':
				if pos.nest >= g.o.MaxNest {
					continue
				}
				fsc = sc
				fpos.level = pos.level + 1
				fpos.nest = pos.nest + 1
			default:
				if st.nvars >= g.o.MaxVars {
					continue
				}
				param = st.nvars
				fst.nvars++
				fsc = (&clScope{}).withVar(clVar{id: param, name: fmt.Sprintf("p%d", param), writable: true, level: pos.level + 1})
				fpos.level = pos.level + 1
				fpos.nest = 0
			}
			g.block(fsc, fst, fpos, budget-1, nil, 0, func(body []clStmt, bsc *clScope, st2 clState, bodyCost int) {
				if bodyCost == 0 || !g.closeScope(body, st2, true) {
					return
				}
				var outs []int
				for _, s := range body {
					if s.kind == 'M' {
						outs = append(outs, s.id)
					}
				}
				if len(outs) == 0 || len(outs) > 2 {
					return
				}
				s := clStmt{kind: 'F', fkind: fk, id: fid, body: cloneStmts(body), outs: outs, param: param}
				sc2 := sc
				if fk == 't' {
					s.outs = outs[len(outs)-1:]
					// the other closures of the frame must have been used inside
					for _, o := range outs[:len(outs)-1] {
						if st2.fnUsed&(1<<uint(o)) == 0 {
							return
						}
					}
					st2.calls++
				} else if len(outs) == 1 {
					sc2 = sc.withFn(clFn{kind: 'r', id: fid, fnID: fid * 2})
				} else {
					sc2 = sc.withFn(clFn{kind: 'e', id: fid, idx: 0, fnID: fid * 2}).withFn(clFn{kind: 'e', id: fid, idx: 1, fnID: fid*2 + 1})
				}
				for _, o := range outs {
					st2.fnUsed |= 1 << uint(o)
				}
				next(s, sc2, st2, 1+bodyCost)
			})
		}
	}
}

func containsKind(ss []clStmt, kinds string) bool {
	for _, s := range ss {
		if strings.IndexByte(kinds, s.kind) >= 0 {
			return true
		}
	}
	return false
}

func countKind(ss []clStmt, kind byte) int {
	n := 0
	for _, s := range ss {
		if s.kind == kind {
			n++
		}
	}
	return n
}

// closure enumerates closure bodies (blocks of at most budget statements plus a result variable) that
// capture something declared outside.
func (g *clGen) closure(sc *clScope, st clState, pos clPos, budget int, k func(body []clStmt, res int, st clState, cost int)) {
	if budget < 0 {
		return
	}
	bpos := clPos{level: pos.level + 1, nest: pos.nest + 1, inLoop: false, frame: false}
	outerVars := st.nvars
	outerFns := st.nfns
	saveRefs, saveFnRefs := st.refs, st.fnRefs
	st.refs, st.fnRefs = 0, 0
	g.block(sc, st, bpos, budget, nil, 0, func(body []clStmt, bsc *clScope, st2 clState, cost int) {
		if !g.closeScope(body, st2, false) {
			return
		}
		for _, v := range bsc.vars {
			st3 := st2
			st3.refs |= 1 << uint(v.id)
			if bpos.level > v.level {
				st3.captured |= 1 << uint(v.id)
			}
			// capture: refers to a variable or closure declared outside the body
			capturesVar := st3.refs&((1<<uint(outerVars))-1) != 0
			capturesFn := st3.fnRefs&((1<<uint(outerFns))-1) != 0 || st3.fnRefs&(1<<63) != 0
			if !capturesVar && !capturesFn {
				continue
			}
			st3.refs |= saveRefs
			st3.fnRefs |= saveFnRefs
			k(body, v.id, st3, cost)
			if g.stop {
				return
			}
		}
	})
}

func varName(id int) string { return string(rune('x' + id)) }

// ---------------------------------------------------------------------------------------------
// Rendering

// Shape renders the term compactly, e.g. "D M{W0;0} W0 C1 P0".
func (c *ClCase) Shape() string { return shapeOf(c.stmts) }

func shapeOf(ss []clStmt) string {
	var parts []string
	for _, s := range ss {
		switch s.kind {
		case 'D':
			parts = append(parts, "D")
		case 'W', 'P':
			parts = append(parts, fmt.Sprintf("%c%d", s.kind, s.v))
		case 'X':
			parts = append(parts, fmt.Sprintf("X%d,%d", s.v, s.w))
		case 'C', 'U':
			parts = append(parts, fmt.Sprintf("%c%s", s.kind, fnShape(s.f)))
		case 'A':
			parts = append(parts, "A")
		case 'M', 'Q':
			parts = append(parts, fmt.Sprintf("%c{%s;%d}", s.kind, shapeOf(s.body), s.res))
		case 'L':
			parts = append(parts, fmt.Sprintf("L{%s}", shapeOf(s.body)))
		case 'F':
			parts = append(parts, fmt.Sprintf("F%c{%s}", s.fkind, shapeOf(s.body)))
		}
	}
	return strings.Join(parts, " ")
}

func fnShape(f clFn) string {
	switch f.kind {
	case 'f':
		return fmt.Sprintf("f%d", f.id)
	case 'r':
		return fmt.Sprintf("r%d", f.id)
	}
	return fmt.Sprintf("r%d[%d]", f.id, f.idx)
}

// Features lists the dimensions the term exercises (for evidence and signatures).
func (c *ClCase) Features() []string {
	var fs []string
	add := func(s string) {
		for _, x := range fs {
			if x == s {
				return
			}
		}
		fs = append(fs, s)
	}
	var walk func(ss []clStmt, nest int, inLoop bool)
	walk = func(ss []clStmt, nest int, inLoop bool) {
		for _, s := range ss {
			switch s.kind {
			case 'M', 'Q':
				add(fmt.Sprintf("nest%d", nest+1))
				if inLoop {
					add("created-in-loop")
				}
				if s.kind == 'Q' {
					add("stored-in-list")
				}
				walk(s.body, nest+1, false)
			case 'L':
				walk(s.body, nest, true)
			case 'F':
				switch s.fkind {
				case 'c':
					add("closure-frame")
					walk(s.body, nest+1, false)
				case 'm':
					add("method-frame")
					walk(s.body, 0, false)
				case 't':
					add("tail-call")
					walk(s.body, 0, false)
				}
				if len(s.outs) == 2 {
					add("returned-in-list")
				} else if s.fkind != 't' {
					add("returned")
				}
			case 'U':
				add("passed-to-method")
			case 'C':
				add("called")
			}
		}
	}
	walk(c.stmts, 0, false)
	return fs
}

// ClUseDef is the helper method of the U statement and of tail-call frames.
func ClUseDef() *Def {
	return &Def{Name: "use", Params: []Param{{"c", TFn0}}, Ret: TInt, Body: []Stmt{
		&Let{Name: "a", E: &CallFn{F: &Var{Name: "c"}}},
		&PrintE{E: &Var{Name: "a"}, Note: "call:passed-to-method(1st)"},
	}, Res: &CallFn{F: &Var{Name: "c"}}}
}

// Program builds the mini program of the term. site: "top" (statements at the top level) or "method" (the
// whole term is the body of a method). suffix makes the names of generated methods unique.
// The `use` helper is part of Defs[0] for the reference interpreter; print Defs[1:] if it comes from a prelude.
func (c *ClCase) Program(site, suffix string) *Program {
	b := &clBuilder{suffix: suffix}
	body := b.stmts(c.stmts, 0)
	if c.usesList {
		body = append([]Stmt{&Let{Name: "acc", T: ListT(TFn0), E: &ListLit{}}}, body...)
	}
	p := &Program{Defs: append([]*Def{ClUseDef()}, b.defs...)}
	if site == "method" {
		name := "main" + suffix
		p.Defs = append(p.Defs, &Def{Name: name, Ret: TInt, Body: body, Res: &Int{V: 0}})
		p.Main = []Stmt{&ExprS{E: &Call{Fn: name}}}
	} else {
		p.Main = body
	}
	return p
}

type clBuilder struct {
	suffix string
	defs   []*Def
}

func (b *clBuilder) vname(id int, ss []clStmt) string { return "" }

func (b *clBuilder) fnExpr(f clFn) Expr {
	switch f.kind {
	case 'f':
		return &Var{Name: fmt.Sprintf("f%d", f.id)}
	case 'r':
		return &Var{Name: fmt.Sprintf("r%d", f.id)}
	}
	return &Index{L: &Var{Name: fmt.Sprintf("r%d", f.id)}, I: f.idx}
}

func fnNote(f clFn) string {
	switch f.kind {
	case 'f':
		return "local-closure"
	case 'r':
		return "returned-closure"
	}
	return "returned-closure-in-list"
}

// names of variables by id: x y z for D; iN for loop variables; pN for parameters. The builder keeps a table.
type clNames map[int]string

func (b *clBuilder) stmts(ss []clStmt, depth int) []Stmt {
	names := clNames{}
	return b.stmtsN(ss, names)
}

func (b *clBuilder) stmtsN(ss []clStmt, names clNames) []Stmt {
	var out []Stmt
	one := &Int{V: 1}
	for _, s := range ss {
		switch s.kind {
		case 'D':
			n := varName(s.v)
			names[s.v] = n
			init := []int{1, 10, 100}[s.v%3]
			out = append(out, &Let{Name: n, E: &Int{V: init}})
		case 'W':
			n := names[s.v]
			out = append(out, &ExprS{E: &Assign{Name: n, E: &Bin{Op: "+", L: &Var{Name: n}, R: one}}})
		case 'X':
			n := names[s.v]
			out = append(out, &ExprS{E: &Assign{Name: n, E: &Bin{Op: "+", L: &Var{Name: n}, R: &Var{Name: names[s.w]}}}})
		case 'P':
			out = append(out, &PrintE{E: &Var{Name: names[s.v]}, Note: "read:variable"})
		case 'C':
			out = append(out, &PrintE{E: &CallFn{F: b.fnExpr(s.f)}, Note: "call:" + fnNote(s.f)})
		case 'U':
			out = append(out, &PrintE{E: &Call{Fn: "use", Args: []Expr{b.fnExpr(s.f)}}, Note: "call:passed-to-method(2nd)"})
		case 'A':
			for i := 0; i < s.idx; i++ {
				out = append(out, &PrintE{E: &CallFn{F: &Index{L: &Var{Name: "acc"}, I: i}}, Note: "call:stored-in-list"})
			}
		case 'M':
			fn := &Fn{Ret: TInt, Body: b.stmtsN(s.body, names), Res: &Var{Name: names[s.res]}}
			out = append(out, &Let{Name: fmt.Sprintf("f%d", s.id), T: TFn0, E: fn})
		case 'Q':
			fn := &Fn{Ret: TInt, Body: b.stmtsN(s.body, names), Res: &Var{Name: names[s.res]}}
			out = append(out, &Push{List: "acc", E: fn})
		case 'L':
			n := fmt.Sprintf("i%d", s.id)
			names[s.id] = n
			out = append(out, &ForIn{Var: n, From: 1, To: 2, Body: b.stmtsN(s.body, names)})
		case 'F':
			out = append(out, b.frame(s, names)...)
		}
	}
	return out
}

func (b *clBuilder) frame(s clStmt, names clNames) []Stmt {
	r := fmt.Sprintf("r%d", s.id)
	var res Expr
	var rt *Type
	if len(s.outs) == 1 {
		res = &Var{Name: fmt.Sprintf("f%d", s.outs[0])}
		rt = TFn0
	} else {
		res = &ListLit{Elems: []Expr{&Var{Name: fmt.Sprintf("f%d", s.outs[0])}, &Var{Name: fmt.Sprintf("f%d", s.outs[1])}}}
		rt = ListT(TFn0)
	}
	switch s.fkind {
	case 'c':
		body := b.stmtsN(s.body, names)
		fn := &Fn{Ret: rt, Body: body, Res: res}
		return []Stmt{&Let{Name: r, E: &CallFn{F: fn}}}
	case 'm':
		inner := clNames{}
		pn := fmt.Sprintf("p%d", s.param)
		inner[s.param] = pn
		body := b.stmtsN(s.body, inner)
		name := fmt.Sprintf("mk%d%s", s.id, b.suffix)
		b.defs = append(b.defs, &Def{Name: name, Params: []Param{{pn, TInt}}, Ret: rt, Body: body, Res: res})
		return []Stmt{&Let{Name: r, E: &Call{Fn: name, Args: []Expr{&Int{V: 1000}}}}}
	case 't':
		inner := clNames{}
		pn := fmt.Sprintf("p%d", s.param)
		inner[s.param] = pn
		body := b.stmtsN(s.body, inner)
		name := fmt.Sprintf("mk%d%s", s.id, b.suffix)
		tail := &Call{Fn: "use", Args: []Expr{&Var{Name: fmt.Sprintf("f%d", s.outs[0])}}}
		b.defs = append(b.defs, &Def{Name: name, Params: []Param{{pn, TInt}}, Ret: TInt, Body: body, Res: tail})
		return []Stmt{&PrintE{E: &Call{Fn: name, Args: []Expr{&Int{V: 1000}}}, Note: "call:passed-in-tail-call(2nd)"}}
	}
	panic("mini: unknown frame kind")
}
