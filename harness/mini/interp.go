package mini

import (
	"fmt"
	"strconv"
)

// ---------------------------------------------------------------------------------------------
// Values

type VKind int

const (
	VNil VKind = iota
	VInt
	VBool
	VSym
	VFn
	VList
)

type Value struct {
	K  VKind
	I  int
	B  bool
	S  string
	Fn *closure
	L  *[]Value
}

type closure struct {
	fn  *Fn
	env *scope
}

// Show is the text println(show(v)) prints.
func (v Value) Show() string {
	switch v.K {
	case VNil:
		return "nil"
	case VInt:
		return strconv.Itoa(v.I)
	case VBool:
		if v.B {
			return "true"
		}
		return "false"
	case VSym:
		return ":" + v.S
	case VFn:
		return "<closure>"
	case VList:
		return "<list>"
	}
	return "?"
}

func truthy(v Value) bool { return !(v.K == VNil || (v.K == VBool && !v.B)) }

// ---------------------------------------------------------------------------------------------
// Environments: a chain of scopes, each mapping names to boxes. Closures keep the scope chain they
// were created in, so boxes are shared by reference.

type box struct{ v Value }

type scope struct {
	vars   map[string]*box
	parent *scope
	act    *activation // the function activation this scope belongs to (nil at top level)
}

func newScope(parent *scope) *scope {
	s := &scope{vars: map[string]*box{}, parent: parent}
	if parent != nil {
		s.act = parent.act
	}
	return s
}

func (s *scope) lookup(name string) *box {
	for c := s; c != nil; c = c.parent {
		if b, ok := c.vars[name]; ok {
			return b
		}
	}
	return nil
}

func (s *scope) declare(name string, v Value) { s.vars[name] = &box{v} }

// ---------------------------------------------------------------------------------------------
// Completion records

type cKind int

const (
	cNormal cKind = iota
	cBreak
	cContinue
	cReturn
	cThrow
)

type completion struct {
	k     cKind
	v     Value  // normal value, break value, return value
	label string // break / continue
	sym   string // throw
}

var normal = completion{}

// activation is one function/closure activation: it owns the defer stack.
type activation struct {
	defers []string
}

// Outcome is what the reference interpreter predicts.
type Outcome struct {
	Trace  []string // lines printed, in order
	Origin []string // parallel to Trace: the Note of the PrintE that printed the line ("" for other statements)
	Thrown string   // symbol thrown out of the top level uncaught ("" if none)
	Steps  int
}

// Stdout renders the trace as the exact expected stdout.
func (o *Outcome) Stdout() string {
	n := 0
	for _, l := range o.Trace {
		n += len(l) + 1
	}
	b := make([]byte, 0, n)
	for _, l := range o.Trace {
		b = append(b, l...)
		b = append(b, '\n')
	}
	return string(b)
}

// Interp is a reference interpreter instance for one program.
type Interp struct {
	defs  map[string]*Def
	out   *Outcome
	steps int
	// MaxSteps bounds the evaluation (all generated programs terminate; the bound only guards the harness).
	MaxSteps int
}

type stepLimit struct{}

// Run evaluates the program and returns the expected trace and outcome.
func Run(p *Program) (out *Outcome, err error) {
	it := &Interp{defs: map[string]*Def{}, out: &Outcome{}, MaxSteps: 200000}
	for _, d := range p.Defs {
		it.defs[d.Name] = d
	}
	defer func() {
		if r := recover(); r != nil {
			if _, ok := r.(stepLimit); ok {
				out, err = it.out, fmt.Errorf("mini: step limit exceeded")
				return
			}
			if e, ok := r.(interpError); ok {
				out, err = it.out, e
				return
			}
			panic(r)
		}
	}()
	top := newScope(nil)
	c := it.block(p.Main, top, nil)
	it.out.Steps = it.steps
	switch c.k {
	case cThrow:
		it.out.Thrown = c.sym
	case cNormal:
	default:
		return it.out, fmt.Errorf("mini: abrupt completion %d at top level", c.k)
	}
	return it.out, nil
}

type interpError struct{ msg string }

func (e interpError) Error() string { return e.msg }

func fail(format string, a ...any) { panic(interpError{"mini: " + fmt.Sprintf(format, a...)}) }

func (it *Interp) tick() {
	it.steps++
	if it.steps > it.MaxSteps {
		panic(stepLimit{})
	}
}

func (it *Interp) print(s string) { it.printFrom(s, "") }

func (it *Interp) printFrom(s, origin string) {
	it.out.Trace = append(it.out.Trace, s)
	it.out.Origin = append(it.out.Origin, origin)
}

// builtin helpers of the Prelude
func (it *Interp) builtin(name string, args []Value) (Value, bool) {
	switch name {
	case "mk_n":
		return Value{}, true
	case "deep":
		return Value{K: VInt}, true
	}
	return Value{}, false
}

// block runs statements in the given scope (the caller decides whether it is a fresh scope).
func (it *Interp) block(ss []Stmt, sc *scope, act *activation) completion {
	for _, s := range ss {
		if c := it.stmt(s, sc, act); c.k != cNormal {
			return c
		}
	}
	return normal
}

func (it *Interp) stmt(s Stmt, sc *scope, act *activation) completion {
	it.tick()
	switch s := s.(type) {
	case *Let:
		v, c := it.expr(s.E, sc)
		if c.k != cNormal {
			return c
		}
		sc.declare(s.Name, v)
	case *ExprS:
		_, c := it.expr(s.E, sc)
		return c
	case *Print:
		it.print(s.Tag)
	case *PrintE:
		v, c := it.expr(s.E, sc)
		if c.k != cNormal {
			return c
		}
		it.printFrom(v.Show(), s.Note)
	case *PrintThrown:
		b := sc.lookup(s.Var)
		if b == nil {
			fail("undeclared %s", s.Var)
		}
		it.print("THROWN " + b.v.Show())
	case *Return:
		v, c := it.expr(s.E, sc)
		if c.k != cNormal {
			return c
		}
		return completion{k: cReturn, v: v}
	case *Break:
		var v Value
		if s.E != nil {
			var c completion
			v, c = it.expr(s.E, sc)
			if c.k != cNormal {
				return c
			}
		}
		return completion{k: cBreak, label: s.Label, v: v}
	case *Continue:
		return completion{k: cContinue, label: s.Label}
	case *Throw:
		return completion{k: cThrow, sym: s.Sym}
	case *Loop:
		return it.loop(s, sc, act)
	case *ForIn:
		for i := s.From; i <= s.To; i++ {
			it.tick()
			body := newScope(sc)
			body.declare(s.Var, Value{K: VInt, I: i})
			c := it.block(s.Body, body, act)
			switch c.k {
			case cBreak:
				if c.label == "" {
					return normal
				}
				return c
			case cContinue:
				if c.label == "" {
					continue
				}
				return c
			case cNormal:
			default:
				return c
			}
		}
	case *Do:
		return it.do(s, sc, act)
	case *Defer:
		if act == nil {
			fail("defer outside a function")
		}
		act.defers = append(act.defers, s.Tag)
	case *If:
		v, c := it.expr(s.C, sc)
		if c.k != cNormal {
			return c
		}
		if truthy(v) {
			return it.block(s.Then, newScope(sc), act)
		}
		return it.block(s.Else, newScope(sc), act)
	case *Push:
		b := sc.lookup(s.List)
		if b == nil || b.v.K != VList {
			fail("push to a non-list %s", s.List)
		}
		v, c := it.expr(s.E, sc)
		if c.k != cNormal {
			return c
		}
		*b.v.L = append(*b.v.L, v)
	default:
		fail("unknown statement %T", s)
	}
	return normal
}

func (it *Interp) loop(s *Loop, sc *scope, act *activation) completion {
	// the hidden counter lives in the enclosing scope, exactly as printed
	sc.declare(s.Ctr, Value{K: VInt})
	ctr := sc.lookup(s.Ctr)
	result := Value{}
	finish := func() completion {
		if s.Bind != "" {
			sc.declare(s.Bind, result)
		}
		return normal
	}
	for {
		it.tick()
		if ctr.v.I >= s.Limit {
			return finish() // `if ctr >= limit then break` / the while condition fails
		}
		ctr.v.I++
		c := it.block(s.Body, newScope(sc), act)
		switch c.k {
		case cNormal:
		case cBreak:
			if c.label == "" || c.label == s.Label {
				result = c.v
				return finish()
			}
			return c
		case cContinue:
			if c.label == "" || c.label == s.Label {
				continue
			}
			return c
		default:
			return c
		}
	}
}

func (it *Interp) do(s *Do, sc *scope, act *activation) completion {
	c := it.block(s.Body, newScope(sc), act)
	if c.k == cThrow {
		for _, ca := range s.Catches {
			if ca.Sym == "" || ca.Sym == c.sym {
				cs := newScope(sc)
				if ca.Sym == "" && ca.Bind != "" {
					cs.declare(ca.Bind, Value{K: VSym, S: c.sym})
				}
				c = it.block(ca.Body, cs, act)
				break
			}
		}
	}
	if s.Finally != nil {
		// finally runs on every completion; only its own abrupt completion overrides the pending one
		if fc := it.block(s.Finally, newScope(sc), act); fc.k != cNormal {
			return fc
		}
	}
	return c
}

// call runs a function body as a new activation: params bound in a fresh scope whose parent is env.
func (it *Interp) call(params []Param, args []Value, body []Stmt, res Expr, env *scope) (Value, completion) {
	if len(params) != len(args) {
		fail("arity mismatch")
	}
	sc := newScope(env)
	for i, p := range params {
		sc.declare(p.Name, args[i])
	}
	act := &activation{}
	sc.act = act
	c := it.block(body, sc, act)
	var v Value
	switch c.k {
	case cNormal:
		if res != nil {
			v, c = it.expr(res, sc)
			if c.k == cReturn { // cannot happen: expressions do not return
				v, c = c.v, normal
			}
		}
	case cReturn:
		v, c = c.v, normal
	case cThrow:
	default:
		fail("break/continue escaping a function")
	}
	// defers run LIFO when the activation completes, whatever the completion
	for i := len(act.defers) - 1; i >= 0; i-- {
		it.print(act.defers[i])
	}
	return v, c
}

// expr evaluates an expression; the completion is normal or a throw (calls may throw).
func (it *Interp) expr(e Expr, sc *scope) (Value, completion) {
	it.tick()
	switch e := e.(type) {
	case *Int:
		return Value{K: VInt, I: e.V}, normal
	case *Sym:
		return Value{K: VSym, S: e.Name}, normal
	case *Nil:
		return Value{}, normal
	case *Bool:
		return Value{K: VBool, B: e.V}, normal
	case *Var:
		b := sc.lookup(e.Name)
		if b == nil {
			fail("undeclared variable %s", e.Name)
		}
		return b.v, normal
	case *Assign:
		v, c := it.expr(e.E, sc)
		if c.k != cNormal {
			return v, c
		}
		b := sc.lookup(e.Name)
		if b == nil {
			fail("assignment to undeclared variable %s", e.Name)
		}
		b.v = v
		return v, normal
	case *Bin:
		l, c := it.expr(e.L, sc)
		if c.k != cNormal {
			return l, c
		}
		r, c := it.expr(e.R, sc)
		if c.k != cNormal {
			return r, c
		}
		if l.K != VInt || r.K != VInt {
			fail("operator %s on non-Int", e.Op)
		}
		switch e.Op {
		case "+":
			return Value{K: VInt, I: l.I + r.I}, normal
		case "-":
			return Value{K: VInt, I: l.I - r.I}, normal
		case "*":
			return Value{K: VInt, I: l.I * r.I}, normal
		case "<":
			return Value{K: VBool, B: l.I < r.I}, normal
		case "<=":
			return Value{K: VBool, B: l.I <= r.I}, normal
		case ">":
			return Value{K: VBool, B: l.I > r.I}, normal
		case ">=":
			return Value{K: VBool, B: l.I >= r.I}, normal
		case "==":
			return Value{K: VBool, B: l.I == r.I}, normal
		}
		fail("unknown operator %s", e.Op)
	case *Call:
		args := make([]Value, len(e.Args))
		for i, a := range e.Args {
			v, c := it.expr(a, sc)
			if c.k != cNormal {
				return v, c
			}
			args[i] = v
		}
		if v, ok := it.builtin(e.Fn, args); ok {
			return v, normal
		}
		d := it.defs[e.Fn]
		if d == nil {
			fail("undefined method %s", e.Fn)
		}
		return it.call(d.Params, args, d.Body, d.Res, nil) // methods do not see the caller's variables
	case *CallFn:
		f, c := it.expr(e.F, sc)
		if c.k != cNormal {
			return f, c
		}
		if f.K != VFn {
			fail("calling a non-closure")
		}
		args := make([]Value, len(e.Args))
		for i, a := range e.Args {
			v, c := it.expr(a, sc)
			if c.k != cNormal {
				return v, c
			}
			args[i] = v
		}
		return it.call(f.Fn.fn.Params, args, f.Fn.fn.Body, f.Fn.fn.Res, f.Fn.env)
	case *Fn:
		return Value{K: VFn, Fn: &closure{fn: e, env: sc}}, normal
	case *Logic:
		l, c := it.expr(e.L, sc)
		if c.k != cNormal {
			return l, c
		}
		switch e.Op {
		case "&&":
			if !truthy(l) {
				return l, normal
			}
		case "||":
			if truthy(l) {
				return l, normal
			}
		case "??":
			if l.K != VNil {
				return l, normal
			}
		default:
			fail("unknown logical operator %s", e.Op)
		}
		return it.expr(e.R, sc)
	case *IfE:
		v, c := it.expr(e.C, sc)
		if c.k != cNormal {
			return v, c
		}
		if truthy(v) {
			return it.expr(e.T, sc)
		}
		return it.expr(e.E, sc)
	case *Mark:
		it.print(e.Tag)
		return it.expr(e.E, sc)
	case *Block:
		// expressions are evaluated without an activation of their own: find it through the scope
		bs := newScope(sc)
		if c := it.block(e.Body, bs, bs.act); c.k != cNormal {
			return Value{}, c
		}
		return it.expr(e.Res, bs)
	case *ListLit:
		l := make([]Value, 0, len(e.Elems))
		for _, a := range e.Elems {
			v, c := it.expr(a, sc)
			if c.k != cNormal {
				return v, c
			}
			l = append(l, v)
		}
		return Value{K: VList, L: &l}, normal
	case *Index:
		l, c := it.expr(e.L, sc)
		if c.k != cNormal {
			return l, c
		}
		if l.K != VList || e.I < 0 || e.I >= len(*l.L) {
			fail("index %d out of range", e.I)
		}
		return (*l.L)[e.I], normal
	}
	fail("unknown expression %T", e)
	return Value{}, normal
}
