package mini

import (
	"fmt"
	"strings"
)

// ---------------------------------------------------------------------------------------------
// Enumerator 4: the depth-3 capture matrix (C13).
//
// Three frames are nested: an outer method, a closure `mid` created in it, and a closure `inner` created in
// mid. inner captures variables of both enclosing frames at once, so that its upvalue descriptors mix the two
// kinds "slot of a local of the parent" and "upvalue of the parent" with every alignment of their indices:
//
//	def cmN: ||: Int
//	  a := 1000; b := 20000; c := 300000                     1–3 outer variables
//	  var mid: |…|: (||: Int) = |q: Int|: (||: Int) ->       mid's own variables: none, L, P, LL or PL
//	    println(t) …                                          mid touches an ordered subset T of the outer variables
//	    x := 4000000; y := 50000000                           (this fixes the numbers of mid's upvalues)
//	    var inner: ||: Int = ||: Int ->
//	      [v = v + 1]; println(v) …                           for the variables of S in order; all read or all written
//	      v0
//	    end
//	    println(inner.())                                     call before mid returns
//	    v = v + 5 … ; println(inner.()); println(own) …       mid writes S, calls again, reads its own variables
//	    inner
//	  end
//	  r := mid.(…); println(r.())                             call after mid returned
//	  v = v + 7; println(v) … ; println(a) println(b) …       the outer frame writes its part of S and reads everything
//	  println(r.()); r
//	end
//	println(cmN().())                                         call after the outer frame returned
//
// S ranges over every ordered selection of 1–3 variables out of (mid's own ∪ the outer variables); T over
// every ordered subset of the outer variables (for three outer variables: none or a full permutation).

// CMCase is one program of the matrix.
type CMCase struct {
	Outer  int      // number of outer variables
	Mid    string   // kinds of mid's own variables: "", "L", "P", "LL", "PL"
	Touch  []string // T
	Sel    []string // S in inner's order of reference
	Writes bool     // inner writes each variable before reading it
}

// Shape renders the case, e.g. "outer=2 mid=L touch=a,b inner=x,b write".
func (c *CMCase) Shape() string {
	w := "read"
	if c.Writes {
		w = "write"
	}
	return fmt.Sprintf("outer=%d mid=%s touch=%s inner=%s %s", c.Outer, c.Mid, strings.Join(c.Touch, ","), strings.Join(c.Sel, ","), w)
}

var cmOuterNames = []string{"a", "b", "c"}
var cmOuterInit = []int{1000, 20000, 300000}
var cmMidInit = []int{4000000, 50000000}

func cmMidNames(kind string) []string {
	var out []string
	for i, k := range kind {
		if k == 'P' {
			out = append(out, "q")
		} else {
			out = append(out, []string{"x", "y"}[i])
		}
	}
	return out
}

// orderedSelections lists every ordered selection of min..max distinct elements, shortest first.
func orderedSelections(items []string, min, max int) [][]string {
	var out [][]string
	var rec func(cur []string, used []bool, k int)
	rec = func(cur []string, used []bool, k int) {
		if len(cur) == k {
			out = append(out, append([]string(nil), cur...))
			return
		}
		for i, it := range items {
			if used[i] {
				continue
			}
			used[i] = true
			rec(append(cur, it), used, k)
			used[i] = false
		}
	}
	for k := min; k <= max && k <= len(items); k++ {
		rec(nil, make([]bool, len(items)), k)
	}
	return out
}

// EnumCaptureMatrix enumerates the matrix in a fixed order.
func EnumCaptureMatrix(yield func(*CMCase) bool) {
	for no := 1; no <= 3; no++ {
		outer := cmOuterNames[:no]
		var touches [][]string
		if no < 3 {
			touches = append([][]string{nil}, orderedSelections(outer, 1, no)...)
		} else {
			touches = append([][]string{nil}, orderedSelections(outer, 3, 3)...)
		}
		for _, mk := range []string{"", "L", "P", "LL", "PL"} {
			all := append(cmMidNames(mk), outer...)
			for _, t := range touches {
				for _, s := range orderedSelections(all, 1, 3) {
					for _, w := range []bool{false, true} {
						if !yield(&CMCase{Outer: no, Mid: mk, Touch: t, Sel: s, Writes: w}) {
							return
						}
					}
				}
			}
		}
	}
}

// Program builds the program; suffix makes the method name unique.
func (c *CMCase) Program(suffix string) *Program {
	v := func(n string) *Var { return &Var{Name: n} }
	pr := func(n, note string) Stmt { return &PrintE{E: v(n), Note: note} }
	inc := func(n string, k int) Stmt {
		return &ExprS{E: &Assign{Name: n, E: &Bin{Op: "+", L: v(n), R: &Int{V: k}}}}
	}
	outer := cmOuterNames[:c.Outer]
	isOuter := func(n string) bool { return n == "a" || n == "b" || n == "c" }
	midNames := cmMidNames(c.Mid)

	// inner
	var ib []Stmt
	for _, n := range c.Sel {
		if c.Writes {
			ib = append(ib, inc(n, 1))
		}
		ib = append(ib, pr(n, "read:in-inner-closure"))
	}
	inner := &Fn{Ret: TInt, Body: ib, Res: v(c.Sel[0])}

	// mid
	var mb []Stmt
	var params []Param
	var args []Expr
	var ptypes []*Type
	for _, n := range c.Touch {
		mb = append(mb, pr(n, "read:outer-variable-in-mid-closure"))
	}
	for i, n := range midNames {
		if n == "q" {
			params = append(params, Param{Name: "q", T: TInt})
			ptypes = append(ptypes, TInt)
			args = append(args, &Int{V: cmMidInit[i]})
		} else {
			mb = append(mb, &Let{Name: n, E: &Int{V: cmMidInit[i]}})
		}
	}
	mb = append(mb,
		&Let{Name: "inner", T: TFn0, E: inner},
		&PrintE{E: &CallFn{F: v("inner")}, Note: "call:inner-closure-inside-mid"})
	for _, n := range c.Sel {
		mb = append(mb, inc(n, 5))
	}
	mb = append(mb, &PrintE{E: &CallFn{F: v("inner")}, Note: "call:inner-closure-inside-mid"})
	for _, n := range midNames {
		mb = append(mb, pr(n, "read:own-variable-of-mid"))
	}
	midT := FnT(TFn0, ptypes...)
	mid := &Fn{Params: params, Ret: TFn0, Body: mb, Res: v("inner")}

	// outer frame
	var ob []Stmt
	for i, n := range outer {
		ob = append(ob, &Let{Name: n, E: &Int{V: cmOuterInit[i]}})
	}
	ob = append(ob,
		&Let{Name: "mid", T: midT, E: mid},
		&Let{Name: "r", T: TFn0, E: &CallFn{F: v("mid"), Args: args}},
		&PrintE{E: &CallFn{F: v("r")}, Note: "call:inner-closure-after-mid-returned"})
	for _, n := range c.Sel {
		if isOuter(n) {
			ob = append(ob, inc(n, 7))
		}
	}
	for _, n := range outer {
		ob = append(ob, pr(n, "read:outer-variable"))
	}
	ob = append(ob, &PrintE{E: &CallFn{F: v("r")}, Note: "call:inner-closure-after-mid-returned"})
	name := "cm" + suffix
	def := &Def{Name: name, Ret: TFn0, Body: ob, Res: v("r")}
	// no top-level local: batched programs keep the top frame small
	return &Program{Defs: []*Def{def}, Main: []Stmt{
		&PrintE{E: &CallFn{F: &Call{Fn: name}}, Note: "call:inner-closure-after-the-outer-frame-returned"},
	}}
}
