package mini

import (
	"fmt"
	"strings"
)

// ---------------------------------------------------------------------------------------------
// Enumerator 1: structured control flow (C14 and its reusers).
//
// A function is a chain of nested constructs (outermost first), each with exactly one hole, and an exit
// statement in the innermost hole:
//
//	def fN: Int [! :a | :b]
//	  p := 1
//	  println("s")
//	  C1[ C2[ … Cd[ EXIT ] … ] ]
//	  println("e")
//	  9
//	end
//
// Every construct prints marker tags `<role><level>` (level 1 = outermost) before and after its hole and in
// each of its clauses, so the trace identifies the path taken.

// CFVariants lists the construct variants in enumeration order. X is the hole, p is a local equal to 1.
//
//	loop        k := 0; loop; if k >= 2 then break; k += 1; println l; X; println m; end
//	while       k := 0; while k < 2; k += 1; println l; X; println m; end
//	lloop       as loop, labelled $Ln          lwhile   as while, labelled $Ln
//	vloop       r := loop … end; println(show(r))   (the loop's value: nil, or 7 after `break 7`)
//	do.b-c      do; println b; X; println m; catch :a; println c; end
//	do.b-cf     … catch :a; println c; finally; println f; end
//	do.b-cyf    … catch :a; println c; catch y; println y; finally; println f; end
//	do.b-f      do; println b; X; println m; finally; println f; end
//	do.c-c      do; println b; throw :a; catch :a; println c; X; println m; end
//	do.c-cf     … the same with finally; println f
//	do.y-cy     do; println b; throw :b; catch :a; println c; catch y; println y; X; println m; end
//	do.y-cyf    … the same with finally; println f
//	do.f-f      do; println b; finally; println f; X; println m; end
//	do.f-tf     do; println b; throw :a; finally; println f; X; println m; end      (a throw is pending)
//	do.f-rf     do; println b; return 5; finally; println f; X; println m; end     (a return is pending)
//	do.f-kf     do; println b; break; finally; println f; X; println m; end        (a break is pending; only inside a loop)
//	do.f-cf     do; println b; throw :a; catch :a; println c; finally; println f; X; println m; end
//	defer       defer println d; X; println m
//	expr        q := 100 + do; println b; X; println m; 1; end; println(q)    (the hole is inside an expression
//	            whose left operand is already on the value stack)
//	if.t        if p > 0; println t; X; println m; else; println e; end
//	if.e        if p > 1; println t; else; println e; X; println m; end
//	seq.before  do; println b; catch :a; println c; finally; println f; end; X
//	seq.after   X; do; println b; catch :a; println c; finally; println f; end
var CFVariants = []string{
	"loop", "while", "lloop", "lwhile", "vloop",
	"do.b-c", "do.b-cf", "do.b-cyf", "do.b-f",
	"do.c-c", "do.c-cf", "do.y-cy", "do.y-cyf",
	"do.f-f", "do.f-tf", "do.f-rf", "do.f-kf", "do.f-cf",
	"defer", "expr", "if.t", "if.e", "seq.before", "seq.after",
}

// CFExits lists the exit kinds in enumeration order. The "?" forms are guarded by `if k >= 2` on the
// counter of the innermost enclosing loop (the exit happens in the second iteration) and followed by println x.
// break[L]/continue[L] are generated for every enclosing labelled loop.
var CFExits = []string{"fall", "return", "throw-a", "throw-b", "break", "continue", "break[L]", "continue[L]", "break-v",
	"?return", "?throw-a", "?throw-b", "?break", "?continue", "?break[L]", "?continue[L]", "?break-v"}

// CFOpts selects the space.
type CFOpts struct {
	MinDepth, MaxDepth int
	// Variants restricts the construct variants (nil: all of CFVariants).
	Variants []string
	// CondExits includes the "?" exits.
	CondExits bool
	// Param: the function takes p as a parameter (called with 1) instead of declaring a local.
	Param bool
	// Keep, when set, filters chains (outermost first) before exits are enumerated.
	Keep func(chain []string) bool
}

// CFCore is a subset of CFVariants without the near-duplicates (one loop form of each kind, the richest
// clause set for each hole position); it is used where the full product is too large.
var CFCore = []string{
	"loop", "lloop", "vloop",
	"do.b-cyf", "do.b-f", "do.c-cf", "do.y-cyf", "do.f-tf", "do.f-rf", "do.f-cf",
	"defer", "expr", "if.t", "seq.before",
}

// CFCase is one generated function.
type CFCase struct {
	Def   *Def
	Args  []Expr   // arguments of the call
	Chain []string // construct variants, outermost first
	Exit  string   // exit kind as in CFExits, with L replaced by the label
	// ExitIn is the clause of the innermost do construct on the chain that (transitively) contains the exit:
	// "body", "catch", "catchall", "finally", or "" when no do encloses it.
	Tags map[string]CFTag // what each marker tag means
}

// CFTag describes a marker tag.
type CFTag struct {
	Role    string // loop-body, after-hole, do-body, catch, catch-all, finally, defer, if-then, if-else, leaf, start, end, sibling-…
	Variant string // construct variant that prints it
	Level   int
}

// Shape renders the chain and exit, e.g. "loop>do.c-cf>if.t|break".
func (c *CFCase) Shape() string { return strings.Join(c.Chain, ">") + "|" + c.Exit }

type cfLoop struct{ label, ctr string }

type cfGen struct {
	opts  CFOpts
	yield func(*CFCase) bool
	stop  bool
	n     int
}

// EnumCF enumerates the space in a fixed order: by depth, then chains in lexicographic order of variant
// index, then exits in the order of CFExits (labels innermost first). yield returns false to stop.
func EnumCF(o CFOpts, yield func(*CFCase) bool) {
	g := &cfGen{opts: o, yield: yield}
	vs := o.Variants
	if vs == nil {
		vs = CFVariants
	}
	for d := o.MinDepth; d <= o.MaxDepth && !g.stop; d++ {
		chain := make([]string, d)
		g.chains(vs, chain, 0)
	}
}

func (g *cfGen) chains(vs []string, chain []string, i int) {
	if g.stop {
		return
	}
	if i == len(chain) {
		if g.opts.Keep != nil && !g.opts.Keep(chain) {
			return
		}
		g.exits(chain)
		return
	}
	for _, v := range vs {
		if v == "do.f-kf" {
			// needs an enclosing loop
			in := false
			for _, c := range chain[:i] {
				if isLoopVariant(c) {
					in = true
				}
			}
			if !in {
				continue
			}
		}
		chain[i] = v
		g.chains(vs, chain, i+1)
		if g.stop {
			return
		}
	}
}

func isLoopVariant(v string) bool {
	return v == "loop" || v == "while" || v == "lloop" || v == "lwhile" || v == "vloop"
}

func (g *cfGen) exits(chain []string) {
	var loops []cfLoop // outermost first
	for i, v := range chain {
		if isLoopVariant(v) {
			l := cfLoop{ctr: fmt.Sprintf("k%d", i+1)}
			if v == "lloop" || v == "lwhile" {
				l.label = fmt.Sprintf("L%d", i+1)
			}
			loops = append(loops, l)
		}
	}
	var kinds []string
	for _, e := range CFExits {
		cond := strings.HasPrefix(e, "?")
		if cond && !g.opts.CondExits {
			continue
		}
		base := strings.TrimPrefix(e, "?")
		needLoop := cond || strings.HasPrefix(base, "break") || strings.HasPrefix(base, "continue")
		if needLoop && len(loops) == 0 {
			continue
		}
		if strings.HasSuffix(base, "[L]") {
			for i := len(loops) - 1; i >= 0; i-- {
				if loops[i].label != "" {
					kinds = append(kinds, strings.Replace(e, "L", loops[i].label, 1))
				}
			}
			continue
		}
		kinds = append(kinds, e)
	}
	for _, k := range kinds {
		c := g.build(chain, k, loops)
		g.n++
		if !g.yield(c) {
			g.stop = true
			return
		}
	}
}

func (g *cfGen) build(chain []string, exit string, loops []cfLoop) *CFCase {
	c := &CFCase{Chain: append([]string(nil), chain...), Exit: exit, Tags: map[string]CFTag{}}
	tag := func(role, variant string, level int, name string) *Print {
		c.Tags[name] = CFTag{Role: role, Variant: variant, Level: level}
		return &Print{Tag: name}
	}
	// the exit statement
	var leaf []Stmt
	base := strings.TrimPrefix(exit, "?")
	var ex Stmt
	switch {
	case base == "fall":
	case base == "return":
		ex = &Return{E: &Int{V: 7}}
	case base == "throw-a":
		ex = &Throw{Sym: "a"}
	case base == "throw-b":
		ex = &Throw{Sym: "b"}
	case base == "break":
		ex = &Break{}
	case base == "break-v":
		ex = &Break{E: &Int{V: 7}}
	case base == "continue":
		ex = &Continue{}
	case strings.HasPrefix(base, "break["):
		ex = &Break{Label: base[6 : len(base)-1]}
	case strings.HasPrefix(base, "continue["):
		ex = &Continue{Label: base[9 : len(base)-1]}
	default:
		panic("mini: unknown exit " + exit)
	}
	x := tag("leaf", "exit", len(chain)+1, "x")
	inExpr := false
	for _, v := range chain {
		if v == "expr" {
			inExpr = true
		}
	}
	switch {
	case ex == nil:
		leaf = []Stmt{x}
	case inExpr && !strings.HasPrefix(exit, "?"):
		// inside an expression block the unconditional exit is hidden behind a guard that is always true at run
		// time (`if p > 0`): otherwise the checker types the block as `never` and rejects the use of its value
		leaf = []Stmt{&If{C: &Bin{Op: ">", L: &Var{Name: "p"}, R: &Int{V: 0}}, Then: []Stmt{ex}}}
	case strings.HasPrefix(exit, "?"):
		inner := loops[len(loops)-1]
		leaf = []Stmt{&If{C: &Bin{Op: ">=", L: &Var{Name: inner.ctr}, R: &Int{V: 2}}, Then: []Stmt{ex}}, x}
	default:
		leaf = []Stmt{ex}
	}
	body := leaf
	for i := len(chain) - 1; i >= 0; i-- {
		body = cfWrap(chain[i], i+1, body, tag, inExpr)
	}
	d := &Def{Name: "f", Ret: TInt}
	var pre []Stmt
	if g.opts.Param {
		d.Params = []Param{{"p", TInt}}
		c.Args = []Expr{&Int{V: 1}}
	} else {
		pre = append(pre, &Let{Name: "p", E: &Int{V: 1}})
	}
	pre = append(pre, tag("start", "function", 0, "s"))
	d.Body = append(pre, body...)
	d.Body = append(d.Body, tag("end", "function", 0, "e"))
	d.Res = &Int{V: 9}
	d.Throws = Escapes(d.Body, nil)
	c.Def = d
	return c
}

// cfWrap builds one construct around the hole content x.
// guard: the constructs' own throw/return/break statements are hidden behind `if p > 0` (always true) when the
// chain contains an expression block, for the same reason as the exit.
func cfWrap(variant string, n int, x []Stmt, tag func(role, variant string, level int, name string) *Print, guard bool) []Stmt {
	g := func(s Stmt) Stmt {
		if !guard {
			return s
		}
		return &If{C: &Bin{Op: ">", L: &Var{Name: "p"}, R: &Int{V: 0}}, Then: []Stmt{s}}
	}
	t := func(role, letter string) Stmt { return tag(role, variant, n, fmt.Sprintf("%s%d", letter, n)) }
	seq := func(parts ...any) []Stmt {
		var out []Stmt
		for _, p := range parts {
			switch p := p.(type) {
			case Stmt:
				out = append(out, p)
			case []Stmt:
				out = append(out, p...)
			}
		}
		return out
	}
	hole := func(first Stmt) []Stmt { return seq(first, x, t("after-hole", "m")) }
	ctr := fmt.Sprintf("k%d", n)
	lbl := fmt.Sprintf("L%d", n)
	ca := func(body []Stmt) Catch { return Catch{Sym: "a", Body: body} }
	cy := func(body []Stmt) Catch { return Catch{Bind: fmt.Sprintf("y%d", n), Body: body} }
	c1 := func() []Stmt { return []Stmt{t("catch", "c")} }
	y1 := func() []Stmt { return []Stmt{t("catch-all", "y")} }
	f1 := func() []Stmt { return []Stmt{t("finally", "f")} }
	b := func() Stmt { return t("do-body", "b") }
	switch variant {
	case "loop":
		return []Stmt{&Loop{Ctr: ctr, Limit: 2, Body: hole(t("loop-body", "l"))}}
	case "while":
		return []Stmt{&Loop{While: true, Ctr: ctr, Limit: 2, Body: hole(t("loop-body", "l"))}}
	case "lloop":
		return []Stmt{&Loop{Label: lbl, Ctr: ctr, Limit: 2, Body: hole(t("loop-body", "l"))}}
	case "vloop":
		r := fmt.Sprintf("r%d", n)
		return []Stmt{&Loop{Ctr: ctr, Limit: 2, Bind: r, Body: hole(t("loop-body", "l"))}, &PrintE{E: &Var{Name: r}, Show: true}}
	case "lwhile":
		return []Stmt{&Loop{While: true, Label: lbl, Ctr: ctr, Limit: 2, Body: hole(t("loop-body", "l"))}}
	case "do.b-c":
		return []Stmt{&Do{Body: hole(b()), Catches: []Catch{ca(c1())}}}
	case "do.b-cf":
		return []Stmt{&Do{Body: hole(b()), Catches: []Catch{ca(c1())}, Finally: f1()}}
	case "do.b-cyf":
		return []Stmt{&Do{Body: hole(b()), Catches: []Catch{ca(c1()), cy(y1())}, Finally: f1()}}
	case "do.b-f":
		return []Stmt{&Do{Body: hole(b()), Finally: f1()}}
	case "do.c-c":
		return []Stmt{&Do{Body: seq(b(), g(&Throw{Sym: "a"})), Catches: []Catch{ca(hole(t("catch", "c")))}}}
	case "do.c-cf":
		return []Stmt{&Do{Body: seq(b(), g(&Throw{Sym: "a"})), Catches: []Catch{ca(hole(t("catch", "c")))}, Finally: f1()}}
	case "do.y-cy":
		return []Stmt{&Do{Body: seq(b(), g(&Throw{Sym: "b"})), Catches: []Catch{ca(c1()), cy(hole(t("catch-all", "y")))}}}
	case "do.y-cyf":
		return []Stmt{&Do{Body: seq(b(), g(&Throw{Sym: "b"})), Catches: []Catch{ca(c1()), cy(hole(t("catch-all", "y")))}, Finally: f1()}}
	case "do.f-f":
		return []Stmt{&Do{Body: seq(b()), Finally: hole(t("finally", "f"))}}
	case "do.f-tf":
		return []Stmt{&Do{Body: seq(b(), g(&Throw{Sym: "a"})), Finally: hole(t("finally", "f"))}}
	case "do.f-rf":
		return []Stmt{&Do{Body: seq(b(), g(&Return{E: &Int{V: 5}})), Finally: hole(t("finally", "f"))}}
	case "do.f-kf":
		return []Stmt{&Do{Body: seq(b(), g(&Break{})), Finally: hole(t("finally", "f"))}}
	case "do.f-cf":
		return []Stmt{&Do{Body: seq(b(), g(&Throw{Sym: "a"})), Catches: []Catch{ca(c1())}, Finally: hole(t("finally", "f"))}}
	case "defer":
		return seq(&Defer{Tag: fmt.Sprintf("d%d", n)}, x, t("after-hole", "m"))
	case "expr":
		q := fmt.Sprintf("q%d", n)
		return []Stmt{
			&Let{Name: q, E: &Bin{Op: "+", L: &Int{V: 100}, R: &Block{Body: hole(t("expr-block", "b")), Res: &Int{V: 1}}}},
			&PrintE{E: &Var{Name: q}},
		}
	case "if.t":
		return []Stmt{&If{C: &Bin{Op: ">", L: &Var{Name: "p"}, R: &Int{V: 0}}, Then: hole(t("if-then", "t")), Else: []Stmt{t("if-else", "e")}}}
	case "if.e":
		return []Stmt{&If{C: &Bin{Op: ">", L: &Var{Name: "p"}, R: &Int{V: 1}}, Then: []Stmt{t("if-then", "t")}, Else: hole(t("if-else", "e"))}}
	case "seq.before":
		sib := &Do{Body: []Stmt{t("sibling-do-body", "b")}, Catches: []Catch{ca([]Stmt{t("sibling-catch", "c")})}, Finally: []Stmt{t("sibling-finally", "f")}}
		return seq(sib, x)
	case "seq.after":
		sib := &Do{Body: []Stmt{t("sibling-do-body", "b")}, Catches: []Catch{ca([]Stmt{t("sibling-catch", "c")})}, Finally: []Stmt{t("sibling-finally", "f")}}
		return seq(x, sib)
	}
	panic("mini: unknown construct variant " + variant)
}

// ---------------------------------------------------------------------------------------------
// Enumerator 2: short-circuit operators.

// LogicCase is one logical expression over marked operands.
type LogicCase struct {
	E     Expr
	Shape string // e.g. "(nil || false) && 0"
	Ops   string // operators, outermost first, e.g. "&&,||"
	Wide  bool
}

// LogicValues are the operand values: nil, false, 0, :s.
func LogicValues() []Expr { return []Expr{&Nil{}, &Bool{}, &Int{V: 0}, &Sym{Name: "s"}} }

func litString(e Expr) string {
	switch e := e.(type) {
	case *Nil:
		return "nil"
	case *Bool:
		if e.V {
			return "true"
		}
		return "false"
	case *Int:
		return fmt.Sprint(e.V)
	case *Sym:
		return ":" + e.Name
	}
	return "?"
}

// EnumLogic enumerates all expressions over && || ?? with exactly `ops` operators (1 or 2: both
// association shapes) and every assignment of LogicValues to the operands; operand i prints tag "o<i>"
// before yielding its value. wide selects the prelude-helper form of the operands.
func EnumLogic(ops int, wide bool, yield func(*LogicCase) bool) {
	opsyms := []string{"&&", "||", "??"}
	vals := LogicValues()
	mark := func(i int, v Expr) Expr { return &Mark{Tag: fmt.Sprintf("o%d", i), E: v, Wide: wide} }
	switch ops {
	case 1:
		for _, op := range opsyms {
			for _, a := range vals {
				for _, b := range vals {
					c := &LogicCase{E: &Logic{Op: op, L: mark(1, a), R: mark(2, b)}, Wide: wide, Ops: op,
						Shape: fmt.Sprintf("%s %s %s", litString(a), op, litString(b))}
					if !yield(c) {
						return
					}
				}
			}
		}
	case 2:
		for _, left := range []bool{true, false} {
			for _, op1 := range opsyms {
				for _, op2 := range opsyms {
					for _, a := range vals {
						for _, b := range vals {
							for _, cc := range vals {
								var e Expr
								var sh string
								if left {
									e = &Logic{Op: op1, L: &Logic{Op: op2, L: mark(1, a), R: mark(2, b)}, R: mark(3, cc)}
									sh = fmt.Sprintf("(%s %s %s) %s %s", litString(a), op2, litString(b), op1, litString(cc))
								} else {
									e = &Logic{Op: op1, L: mark(1, a), R: &Logic{Op: op2, L: mark(2, b), R: mark(3, cc)}}
									sh = fmt.Sprintf("%s %s (%s %s %s)", litString(a), op1, litString(b), op2, litString(cc))
								}
								c := &LogicCase{E: e, Wide: wide, Ops: op1 + "," + op2, Shape: sh}
								if !yield(c) {
									return
								}
							}
						}
					}
				}
			}
		}
	default:
		panic("mini: EnumLogic supports 1 or 2 operators")
	}
}
