package mini

import (
	"fmt"
	"strings"
)

// Prelude defines the helpers the printer relies on: show (prints nilable values), the wide Mark helpers
// (declared nilable return types so that the checker cannot fold the operand), and `deep`, a non-tail recursion
// that only consumes value-stack slots (8 per level; used to force stack growth while closures are live). It has
// no locals besides its parameters on purpose: a self-recursive method with a local assigned from the call hits
// the late-call-patching defect of the compiler.
const Prelude = `def show(v: ::Std::Inspectable?): ::Std::String
  switch v
  case nil then "nil"
  case false then "false"
  else
    if v then v.inspect else "?"
  end
end
def mk_n(s: ::Std::String): ::Std::Int?
  println(s)
  nil
end
def mk_i(s: ::Std::String, v: ::Std::Int): ::Std::Int?
  println(s)
  v
end
def mk_b(s: ::Std::String, v: bool): bool?
  println(s)
  v
end
def mk_s(s: ::Std::String, v: ::Std::Symbol): ::Std::Symbol?
  println(s)
  v
end
def deep(n: ::Std::Int, a: ::Std::Int, b: ::Std::Int, c: ::Std::Int, d: ::Std::Int, e: ::Std::Int, g: ::Std::Int): ::Std::Int
  if n <= 0 then return 0
  deep(n - 1, a, b, c, d, e, g) + a - a
end
`

// TypeString prints a type in Elk syntax.
func TypeString(t *Type) string {
	switch t.K {
	case KInt:
		return "Int"
	case KNInt:
		return "Int?"
	case KSym:
		return "Symbol"
	case KNSym:
		return "Symbol?"
	case KNBool:
		return "bool?"
	case KNil:
		return "nil"
	case KAny:
		return "::Std::Inspectable?"
	case KList:
		return "List[" + TypeString(t.Elem) + "]"
	case KFn:
		var ps []string
		for i, p := range t.Params {
			ps = append(ps, fmt.Sprintf("%c: %s", 'a'+i, TypeString(p)))
		}
		ret := TypeString(t.Ret)
		if t.Ret.K == KFn {
			ret = "(" + ret + ")"
		}
		s := "|" + strings.Join(ps, ", ") + "|: " + ret
		if len(t.Throws) > 0 {
			s += " ! " + throwsString(t.Throws)
		}
		return s
	}
	panic("mini: unknown type kind")
}

func throwsString(th []string) string {
	var s []string
	for _, t := range th {
		s = append(s, ":"+t)
	}
	return strings.Join(s, " | ")
}

// Printer options.
type PrintOpts struct {
	// Grow, when set, inserts a call `deep(n)` (a no-op for the reference semantics) as the first statement of
	// every closure body and after every statement that creates a closure; n doubles from site to site
	// (10, 20, …, capped at 640) so that the value stack has to grow at several points of the execution.
	Grow bool
}

type printer struct {
	b     strings.Builder
	ind   int
	tmp   int
	opts  PrintOpts
	sites int
}

func (p *printer) line(s string) {
	pad := strings.Repeat("  ", p.ind)
	p.b.WriteString(pad)
	p.b.WriteString(strings.ReplaceAll(s, "\n", "\n"+pad))
	p.b.WriteString("\n")
}

// PrintProgram prints a whole program (without the Prelude).
func PrintProgram(pr *Program, o PrintOpts) string {
	p := &printer{opts: o}
	for _, d := range pr.Defs {
		p.def(d)
	}
	p.stmts(pr.Main)
	return p.b.String()
}

// PrintDef prints one method definition.
func PrintDef(d *Def, o PrintOpts) string {
	p := &printer{opts: o}
	p.def(d)
	return p.b.String()
}

// PrintStmts prints top-level statements.
func PrintStmts(ss []Stmt, o PrintOpts) string {
	p := &printer{opts: o}
	p.stmts(ss)
	return p.b.String()
}

func (p *printer) def(d *Def) {
	var ps []string
	for _, pa := range d.Params {
		ps = append(ps, pa.Name+": "+TypeString(pa.T))
	}
	h := "def " + d.Name
	if len(ps) > 0 {
		h += "(" + strings.Join(ps, ", ") + ")"
	}
	ret := TypeString(d.Ret)
	h += ": " + ret
	if len(d.Throws) > 0 {
		h += " ! " + throwsString(d.Throws)
	}
	p.line(h)
	p.ind++
	p.stmts(d.Body)
	if d.Res != nil {
		p.line(p.expr(d.Res))
	}
	p.ind--
	p.line("end")
}

func (p *printer) block(ss []Stmt) {
	p.ind++
	p.stmts(ss)
	p.ind--
}

func (p *printer) stmts(ss []Stmt) {
	for _, s := range ss {
		p.stmt(s)
	}
}

func hasFn(e Expr) bool {
	switch e := e.(type) {
	case *Fn:
		return true
	case *ListLit:
		for _, x := range e.Elems {
			if hasFn(x) {
				return true
			}
		}
	case *Call:
		for _, x := range e.Args {
			if hasFn(x) {
				return true
			}
		}
	}
	return false
}

func (p *printer) growSite() {
	if !p.opts.Grow {
		return
	}
	n := 10
	for i := 0; i < p.sites && n < 640; i++ {
		n *= 2
	}
	p.sites++
	p.line(fmt.Sprintf("deep(%d, 1, 2, 3, 4, 5, 6)", n))
}

func (p *printer) stmt(s Stmt) {
	switch s := s.(type) {
	case *Let:
		if s.T != nil {
			p.line("var " + s.Name + ": " + TypeString(s.T) + " = " + p.expr(s.E))
		} else {
			p.line(s.Name + " := " + p.expr(s.E))
		}
		if hasFn(s.E) {
			p.growSite()
		}
	case *ExprS:
		p.line(p.expr(s.E))
	case *Print:
		p.line(fmt.Sprintf("println(%q)", s.Tag))
	case *PrintE:
		e := s.E
		if needsHoist(e) {
			p.tmp++
			t := fmt.Sprintf("t%d", p.tmp)
			p.line(t + " := " + p.expr(e))
			e = &Var{Name: t}
		}
		if s.Show {
			p.line("println(show(" + p.expr(e) + "))")
		} else {
			p.line("println(" + p.expr(e) + ")")
		}
	case *PrintThrown:
		p.line(`println("THROWN " + ` + s.Var + `.inspect)`)
	case *Return:
		p.line("return " + p.expr(s.E))
	case *Break:
		l := "break"
		if s.Label != "" {
			l += "[$" + s.Label + "]"
		}
		if s.E != nil {
			l += " " + p.expr(s.E)
		}
		p.line(l)
	case *Continue:
		l := "continue"
		if s.Label != "" {
			l += "[$" + s.Label + "]"
		}
		p.line(l)
	case *Throw:
		p.line("throw :" + s.Sym)
	case *Loop:
		p.line(s.Ctr + " := 0")
		lbl := ""
		if s.Label != "" {
			lbl = "$" + s.Label + ": "
		}
		if s.While {
			p.line(fmt.Sprintf("%swhile %s < %d", lbl, s.Ctr, s.Limit))
			p.ind++
			p.line(s.Ctr + " += 1")
		} else {
			head := lbl + "loop"
			if s.Bind != "" {
				head = s.Bind + " := " + head
			}
			p.line(head)
			p.ind++
			p.line(fmt.Sprintf("if %s >= %d then break", s.Ctr, s.Limit))
			p.line(s.Ctr + " += 1")
		}
		p.stmts(s.Body)
		p.ind--
		p.line("end")
	case *ForIn:
		p.line(fmt.Sprintf("for %s in %d...%d", s.Var, s.From, s.To))
		p.block(s.Body)
		p.line("end")
	case *Do:
		p.line("do")
		p.block(s.Body)
		for _, c := range s.Catches {
			switch {
			case c.Sym != "":
				p.line("catch :" + c.Sym)
			case c.Typed:
				p.line("catch ::Std::Symbol() as " + c.Bind)
			default:
				p.line("catch " + c.Bind)
			}
			p.block(c.Body)
		}
		if s.Finally != nil {
			p.line("finally")
			p.block(s.Finally)
		}
		p.line("end")
	case *Defer:
		p.line(fmt.Sprintf("defer println(%q)", s.Tag))
	case *If:
		p.line("if " + p.expr(s.C))
		p.block(s.Then)
		if len(s.Else) > 0 {
			p.line("else")
			p.block(s.Else)
		}
		p.line("end")
	case *Push:
		p.line(s.List + " << " + p.expr(s.E))
		if hasFn(s.E) {
			p.growSite()
		}
	default:
		panic(fmt.Sprintf("mini: unknown statement %T", s))
	}
}

// needsHoist: logical expressions must not appear inside the argument of an overloaded call (println).
func needsHoist(e Expr) bool {
	switch e := e.(type) {
	case *Logic:
		return true
	case *IfE:
		return needsHoist(e.C) || needsHoist(e.T) || needsHoist(e.E)
	case *Mark, *Block:
		return true
	case *Bin:
		return needsHoist(e.L) || needsHoist(e.R)
	case *Assign:
		return needsHoist(e.E)
	}
	return false
}

func atom(e Expr) bool {
	switch e.(type) {
	case *Int, *Sym, *Nil, *Bool, *Var, *Call, *CallFn, *Index, *ListLit:
		return true
	case *Mark:
		return e.(*Mark).Wide
	}
	return false
}

// sub prints a subexpression, parenthesised unless atomic.
func (p *printer) sub(e Expr) string {
	if atom(e) {
		return p.expr(e)
	}
	return "(" + p.expr(e) + ")"
}

func indentLines(s string) string {
	return "  " + strings.ReplaceAll(s, "\n", "\n  ")
}

// expr prints an expression; the result may span several lines (continuation lines are relative to the
// statement's indentation, which line() adds).
func (p *printer) expr(e Expr) string {
	switch e := e.(type) {
	case *Int:
		if e.V < 0 {
			return fmt.Sprintf("(%d)", e.V)
		}
		return fmt.Sprint(e.V)
	case *Sym:
		return ":" + e.Name
	case *Nil:
		return "nil"
	case *Bool:
		if e.V {
			return "true"
		}
		return "false"
	case *Var:
		return e.Name
	case *Assign:
		return e.Name + " = " + p.sub(e.E)
	case *Bin:
		return p.sub(e.L) + " " + e.Op + " " + p.sub(e.R)
	case *Call:
		var as []string
		for _, a := range e.Args {
			if needsHoist(a) {
				panic("mini: a logical/mark expression must be bound to a local before it is passed as an argument")
			}
			as = append(as, p.expr(a))
		}
		return e.Fn + "(" + strings.Join(as, ", ") + ")"
	case *CallFn:
		var as []string
		for _, a := range e.Args {
			as = append(as, p.expr(a))
		}
		return p.sub(e.F) + ".(" + strings.Join(as, ", ") + ")"
	case *Fn:
		return p.fn(e)
	case *Logic:
		return p.sub(e.L) + " " + e.Op + " " + p.sub(e.R)
	case *IfE:
		return "if " + p.expr(e.C) + " then " + p.sub(e.T) + " else " + p.sub(e.E)
	case *Mark:
		if e.Wide {
			switch v := e.E.(type) {
			case *Nil:
				return fmt.Sprintf("mk_n(%q)", e.Tag)
			case *Int:
				return fmt.Sprintf("mk_i(%q, %s)", e.Tag, p.expr(v))
			case *Bool:
				return fmt.Sprintf("mk_b(%q, %s)", e.Tag, p.expr(v))
			case *Sym:
				return fmt.Sprintf("mk_s(%q, %s)", e.Tag, p.expr(v))
			}
			panic("mini: a wide Mark needs a literal operand")
		}
		return "do\n" + indentLines(fmt.Sprintf("println(%q)\n%s", e.Tag, p.expr(e.E))) + "\nend"
	case *Block:
		q := &printer{opts: p.opts, tmp: p.tmp, sites: p.sites, ind: 1}
		q.stmts(e.Body)
		q.line(q.expr(e.Res))
		p.tmp, p.sites = q.tmp, q.sites
		return "do\n" + q.b.String() + "end"
	case *ListLit:
		var as []string
		for _, a := range e.Elems {
			as = append(as, p.expr(a))
		}
		return "[" + strings.Join(as, ", ") + "]"
	case *Index:
		return p.sub(e.L) + fmt.Sprintf("[%d]", e.I)
	}
	panic(fmt.Sprintf("mini: unknown expression %T", e))
}

func (p *printer) fn(f *Fn) string {
	var ps []string
	for _, pa := range f.Params {
		ps = append(ps, pa.Name+": "+TypeString(pa.T))
	}
	head := ""
	if len(ps) > 0 || f.Ret != nil || len(f.Throws) > 0 {
		head = "|" + strings.Join(ps, ", ") + "|"
		if f.Ret != nil {
			rt := TypeString(f.Ret)
			if f.Ret.K == KFn {
				rt = "(" + rt + ")"
			}
			head += ": " + rt
		}
		if len(f.Throws) > 0 {
			head += " ! " + throwsString(f.Throws)
		}
		head += " "
	}
	if len(f.Body) == 0 && f.Res != nil && !p.opts.Grow {
		if _, nested := f.Res.(*Fn); !nested {
			r := p.expr(f.Res)
			if !strings.Contains(r, "\n") {
				return head + "-> " + r
			}
		}
	}
	// multi-line form: print the body with a sub-printer at indentation 1
	q := &printer{opts: p.opts, tmp: p.tmp, sites: p.sites, ind: 1}
	q.growSite()
	q.stmts(f.Body)
	if f.Res != nil {
		q.line(q.expr(f.Res))
	}
	p.tmp, p.sites = q.tmp, q.sites
	return head + "->\n" + q.b.String() + "end"
}
