package mini

import (
	"bytes"
	"context"
	"encoding/json"
	"fmt"
	"os"
	"os/exec"
	"strings"
	"time"

	"verifharness/elkrun"
)

// Isolated batches: programs that may corrupt the memory of the process that runs them (defects of the VM's
// raw stack pointers) are run in a child process, so that the damage cannot surface later as an unrelated
// crash of the worker with an unstable signature. A check enables this with
//
//	if mini.IsBatchChild() { mini.BatchChildMain(); return }
//
// at the top of main().

const childEnv = "VERIF_MINI_BATCH_CHILD"

type childRequest struct {
	Units []Unit
	Opts  BatchOpts
}

// IsBatchChild reports whether this process was started by RunBatchIsolated.
func IsBatchChild() bool { return os.Getenv(childEnv) != "" }

// BatchChildMain serves one request: reads it from stdin, runs every unit as a program of its own (a fresh VM
// thread and value stack each) and appends each result as one JSON line to the file named in the environment
// variable as soon as it is known, so that the parent knows which unit was running if the process dies.
func BatchChildMain() {
	var req childRequest
	if err := json.NewDecoder(os.Stdin).Decode(&req); err != nil {
		fmt.Fprintln(os.Stderr, "mini child: bad request:", err)
		os.Exit(2)
	}
	elkrun.Init()
	f, err := os.OpenFile(os.Getenv(childEnv), os.O_WRONLY|os.O_APPEND|os.O_CREATE, 0o644)
	if err != nil {
		fmt.Fprintln(os.Stderr, "mini child: cannot write results:", err)
		os.Exit(2)
	}
	if !req.Opts.Separate {
		// one program for all units; nothing is reported unless the whole batch completes
		var buf bytes.Buffer
		for _, u := range RunBatch(req.Units, req.Opts) {
			b, _ := json.Marshal(u)
			buf.Write(append(b, '\n'))
		}
		f.Write(buf.Bytes())
		f.Close()
		os.Exit(0)
	}
	for i := range req.Units {
		res := make([]UnitResult, 1)
		runRange(req.Units[i:i+1], 0, 1, res, req.Opts)
		b, _ := json.Marshal(res[0])
		f.Write(append(b, '\n'))
	}
	f.Close()
	os.Exit(0)
}

const timedOut = "child process timed out"

// HostCrash is the Panic value of a unit whose child process died (fatal Go runtime error, signal, or timeout).
const HostCrash = "host crash"

// RunBatchIsolated is RunBatch in a child process. Unless o.Separate is set, the units first run as one
// program; if that child dies (or with o.Separate), every unit runs as a program of its own: then, if the
// child dies, the unit that was running gets Panic = HostCrash (with the head of the crash report in
// PanicMsg/Stack) and the remaining units continue in a new child.
func RunBatchIsolated(units []Unit, o BatchOpts) []UnitResult {
	res := make([]UnitResult, len(units))
	if !o.Separate {
		// first try all units as one program in one child; if that child dies, fall back to one program per unit
		if done, _ := runChild(units, o); len(done) == len(units) {
			return done
		}
		o.Separate = true
	}
	lo := 0
	for lo < len(units) {
		done, crash := runChild(units[lo:], o)
		copy(res[lo:], done)
		lo += len(done)
		if lo < len(units) {
			// the child died while running units[lo]
			if strings.HasPrefix(crash, timedOut) {
				// no verdict from wall-clock time: the unit is reported as not observed
				res[lo] = UnitResult{TimedOut: true}
			} else {
				res[lo] = UnitResult{Panic: HostCrash, PanicMsg: firstLineOf(crash), Stack: crash}
			}
			lo++
		}
	}
	return res
}

func firstLineOf(s string) string {
	s = strings.TrimSpace(s)
	if i := strings.IndexByte(s, '\n'); i >= 0 {
		s = s[:i]
	}
	return s
}

func runChild(units []Unit, o BatchOpts) (res []UnitResult, crash string) {
	exe, err := os.Executable()
	if err != nil {
		panic(err)
	}
	dir := os.Getenv("VERIF_ROOT")
	if dir == "" {
		dir = "/verif"
	}
	f, err := os.CreateTemp(dir+"/.work", "mini-child-*.json")
	if err != nil {
		panic(err)
	}
	path := f.Name()
	f.Close()
	defer os.Remove(path)
	req, _ := json.Marshal(childRequest{Units: units, Opts: o})
	ctx, cancel := context.WithTimeout(context.Background(), 5*time.Minute+time.Duration(len(units))*5*time.Second)
	defer cancel()
	cmd := exec.CommandContext(ctx, exe)
	var env []string
	for _, e := range os.Environ() {
		if !strings.HasPrefix(e, childEnv+"=") {
			env = append(env, e)
		}
	}
	cmd.Env = append(env, childEnv+"="+path)
	cmd.Stdin = bytes.NewReader(req)
	var stderr bytes.Buffer
	cmd.Stdout = nil
	cmd.Stderr = &stderr
	runErr := cmd.Run()
	if b, err := os.ReadFile(path); err == nil {
		for _, line := range bytes.Split(b, []byte("\n")) {
			var u UnitResult
			if len(line) == 0 || json.Unmarshal(line, &u) != nil {
				break
			}
			res = append(res, u)
		}
	}
	if len(res) > len(units) {
		res = res[:len(units)]
	}
	if len(res) == len(units) {
		return res, ""
	}
	s := stderr.String()
	head := s
	if i := strings.Index(s, "fatal error:"); i >= 0 {
		head = s[i:]
	} else if i := strings.Index(s, "panic:"); i >= 0 {
		head = s[i:]
	} else if i := strings.Index(s, "unexpected fault address"); i >= 0 {
		head = s[i:]
	}
	if len(head) > 3000 {
		head = head[:3000]
	}
	if ctx.Err() != nil {
		return res, timedOut + "\n" + head
	}
	return res, fmt.Sprintf("child process died (%v)\n%s", runErr, head)
}
