package mini

import (
	"fmt"
	"strings"

	"github.com/elk-language/elk/vm"

	"verifharness/elkrun"
)

// Unit is one independent member of a batched program: its own method definitions (printed callee first,
// names must be unique in the batch) and its own top-level statements, which print its observations.
type Unit struct {
	Defs string
	Main string
}

// UnitResult is what one unit did. Out is the text it printed. At most one of Rejected / Err / Panic is set,
// and only after the unit was isolated (run alone), so a bad unit cannot mask its neighbours.
type UnitResult struct {
	Out      string
	Rejected bool
	Diags    string
	Err      string // uncaught Elk error (inspect)
	ErrClass string
	Panic    string // Go panic signature (engine.PanicSig)
	PanicMsg string
	Stack    string
	// OnlyInBatch: the unit failed at run time only when the preceding units of its batch had run before it in
	// the same program (alone it runs cleanly): state leaked between independent units inside the VM.
	OnlyInBatch bool
	// TimedOut (isolated runs only): the child process exceeded its generous time limit while running this unit;
	// nothing was observed and nothing is concluded.
	TimedOut bool
}

// Failed reports whether the unit could not be observed normally.
func (u *UnitResult) Failed() bool { return u.Rejected || u.Err != "" || u.Panic != "" }

const unitMarker = "@@#"

// BatchOpts configures RunBatch.
type BatchOpts struct {
	Prelude string
	// StackSlots, when > 0, sets vm.INIT_VALUE_STACK_SIZE (in slots) for the executions of this batch.
	StackSlots int
	// Separate runs every unit as a program of its own (e.g. when the top-level frame must stay small).
	Separate bool
}

// RunBatch compiles and runs all units as one program: prelude, all definitions, then for each unit a
// marker line and its main statements. If the program is rejected, panics or ends with an uncaught error,
// the batch is bisected down to single units.
func RunBatch(units []Unit, o BatchOpts) []UnitResult {
	res := make([]UnitResult, len(units))
	if o.Separate {
		for i := range units {
			runRange(units, i, i+1, res, o)
		}
		return res
	}
	runRange(units, 0, len(units), res, o)
	return res
}

func runRange(units []Unit, lo, hi int, res []UnitResult, o BatchOpts) {
	if lo >= hi {
		return
	}
	var b strings.Builder
	b.WriteString(o.Prelude)
	for i := lo; i < hi; i++ {
		b.WriteString(units[i].Defs)
	}
	for i := lo; i < hi; i++ {
		fmt.Fprintf(&b, "println(\"%s%d\")\n", unitMarker, i)
		b.WriteString(units[i].Main)
	}
	r := RunSource(b.String(), o.StackSlots)
	clean := !r.Rejected && r.Panic == "" && r.Err == ""
	setFailure := func(u *UnitResult) {
		u.Rejected, u.Diags = r.Rejected, r.Diags
		u.Err, u.ErrClass = r.Err, r.ErrClass
		u.Panic, u.PanicMsg, u.Stack = r.PanicSig, r.Panic, r.Stack
		if r.Panic != "" && u.Panic == "" {
			u.Panic = r.Panic
		}
	}
	if clean || hi-lo == 1 {
		outs, _ := splitUnits(r.Stdout, lo, hi)
		for i := lo; i < hi; i++ {
			res[i].Out = outs[i-lo]
		}
		if !clean {
			setFailure(&res[lo])
		}
		return
	}
	if !r.Rejected {
		// a run-time failure: the units run in order, so the unit whose marker was printed last is the one
		// that failed; the units before it completed and their output is known
		outs, last := splitUnits(r.Stdout, lo, hi)
		if last >= lo {
			for i := lo; i < last; i++ {
				res[i].Out = outs[i-lo]
			}
			runRange(units, last, last+1, res, o) // confirm it alone
			if !res[last].Failed() {
				// it fails only after the earlier units ran in the same program
				res[last].Out = outs[last-lo]
				setFailure(&res[last])
				res[last].OnlyInBatch = true
			}
			runRange(units, last+1, hi, res, o)
			return
		}
	}
	mid := (lo + hi) / 2
	runRange(units, lo, mid, res, o)
	runRange(units, mid, hi, res, o)
}

// RunSource compiles and runs one program; stackSlots > 0 runs it with that initial value-stack size.
func RunSource(src string, stackSlots int) elkrun.Result {
	fn, r := elkrun.Compile(src, nil)
	if fn == nil {
		return r
	}
	if stackSlots > 0 {
		saved := vm.INIT_VALUE_STACK_SIZE
		vm.INIT_VALUE_STACK_SIZE = stackSlots
		defer func() { vm.INIT_VALUE_STACK_SIZE = saved }()
	}
	return elkrun.Exec(fn, nil)
}

// splitUnits cuts the output at the unit markers; last is the index of the last unit that started (-1: none).
func splitUnits(out string, lo, hi int) (outs []string, last int) {
	outs = make([]string, hi-lo)
	last = -1
	cur := -1
	for _, line := range strings.SplitAfter(out, "\n") {
		if strings.HasPrefix(line, unitMarker) {
			var n int
			if _, err := fmt.Sscanf(strings.TrimSpace(line[len(unitMarker):]), "%d", &n); err == nil && n >= lo && n < hi {
				cur = n - lo
				last = n
				continue
			}
		}
		if cur >= 0 {
			outs[cur] += line
		}
	}
	return outs, last
}

// RenameDef returns a shallow copy of the definition under another name (batches need unique names).
func RenameDef(d *Def, name string) *Def {
	c := *d
	c.Name = name
	return &c
}
