package mini

import (
	"fmt"
	"testing"
)

func TestSampleCl(t *testing.T) {
	o := ClOpts{MaxVars: 3, MaxNest: 3, Loops: true, List: true, Pass: true, Frames: "cmt"}
	i := 0
	EnumClosures(o, 6, func(c *ClCase) bool {
		i++
		if i%2500 == 7 {
			p := c.Program("top", "_1")
			w, err := Run(p)
			fmt.Printf("=== %s %v\n%s--- want %v %v\n", c.Shape(), c.Features(), PrintProgram(&Program{Defs: p.Defs[1:], Main: p.Main}, PrintOpts{}), w.Trace, err)
		}
		return true
	})
}
