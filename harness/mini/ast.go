// Package mini is a small, simply typed language shared by several checks (DESIGN.md Appendix D):
// an AST, a printer to Elk source that the real Elk type checker accepts, a naive big-step reference
// interpreter (boxed variables shared by reference with closures, explicit completion records), and
// enumerators of well-typed terms in a fixed order.
//
// Every observable of a mini program is a `println` of a literal tag, of an Int, or of show(v).
// The interpreter returns the expected stdout (one entry per printed line) and the final outcome.
package mini

// ---------------------------------------------------------------------------------------------
// Types

type Kind int

const (
	KInt   Kind = iota // Int
	KNInt              // Int?
	KSym               // Symbol
	KNSym              // Symbol?
	KNBool             // bool?
	KNil               // nil
	KFn                // closure type |a: P…|: Ret [! :a | :b]
	KList              // List[Elem]
	KAny               // ::Std::Inspectable? (only for printing through show)
)

type Type struct {
	K      Kind
	Params []*Type  // KFn
	Ret    *Type    // KFn
	Throws []string // KFn: symbols the closure may throw
	Elem   *Type    // KList
}

var (
	TInt   = &Type{K: KInt}
	TNInt  = &Type{K: KNInt}
	TSym   = &Type{K: KSym}
	TNSym  = &Type{K: KNSym}
	TNBool = &Type{K: KNBool}
	TAny   = &Type{K: KAny}
)

// FnT builds a closure type.
func FnT(ret *Type, params ...*Type) *Type { return &Type{K: KFn, Params: params, Ret: ret} }

// ListT builds List[elem].
func ListT(elem *Type) *Type { return &Type{K: KList, Elem: elem} }

// TFn0 is ||: Int, the closure type used most.
var TFn0 = FnT(TInt)

// ---------------------------------------------------------------------------------------------
// Expressions

type Expr interface{ isExpr() }

type (
	Int  struct{ V int }
	Sym  struct{ Name string } // :name
	Nil  struct{}
	Bool struct{ V bool }
	Var  struct{ Name string }
	// Assign is `x = e`; its value is the assigned value.
	Assign struct {
		Name string
		E    Expr
	}
	// Bin is an Int operator: + - * (Int result), < == >= (used as conditions only).
	Bin struct {
		Op   string
		L, R Expr
	}
	// Call is a call of a method defined in Program.Defs (or of a prelude helper).
	Call struct {
		Fn   string
		Args []Expr
	}
	// CallFn is a closure call `f.(args)`.
	CallFn struct {
		F    Expr
		Args []Expr
	}
	// Fn is a closure literal `|params|: Ret -> body; res end` (captures variables by reference).
	Fn struct {
		Params []Param
		Ret    *Type // nil: let Elk infer
		Throws []string
		Body   []Stmt
		Res    Expr // value of the closure when the body falls through; may be nil (then the body must end in a Return)
	}
	// Logic is `&&`, `||` (deciding operand; falsy = nil and false) or `??` (nil test only).
	Logic struct {
		Op   string
		L, R Expr
	}
	// IfE is `if c then t else e`.
	IfE struct{ C, T, E Expr }
	// Mark prints Tag, then yields E. Wide: printed as a call of a prelude helper whose declared return type
	// is the nilable type of the literal E (the checker cannot fold it); otherwise an inline do-block.
	Mark struct {
		Tag  string
		E    Expr
		Wide bool
	}
	// Block is a do-block used as an expression: `do; body; res; end` (a fresh scope; its value is Res).
	// Abrupt completions of the body (break, continue, return, throw) propagate out of the expression.
	Block struct {
		Body []Stmt
		Res  Expr
	}
	// ListLit is `[e, …]`.
	ListLit struct{ Elems []Expr }
	// Index is `l[i]` with a constant index.
	Index struct {
		L Expr
		I int
	}
)

func (*Int) isExpr()     {}
func (*Sym) isExpr()     {}
func (*Nil) isExpr()     {}
func (*Bool) isExpr()    {}
func (*Var) isExpr()     {}
func (*Assign) isExpr()  {}
func (*Bin) isExpr()     {}
func (*Call) isExpr()    {}
func (*CallFn) isExpr()  {}
func (*Fn) isExpr()      {}
func (*Logic) isExpr()   {}
func (*IfE) isExpr()     {}
func (*Mark) isExpr()    {}
func (*Block) isExpr()   {}
func (*ListLit) isExpr() {}
func (*Index) isExpr()   {}

// ---------------------------------------------------------------------------------------------
// Statements

type Stmt interface{ isStmt() }

type (
	// Let declares a variable in the current scope: `x := e`, or `var x: T = e` when T is set.
	Let struct {
		Name string
		T    *Type
		E    Expr
	}
	ExprS struct{ E Expr }
	// Print is println("tag").
	Print struct{ Tag string }
	// PrintE is println(e) for an Int e, or println(show(e)) when Show is set (nilable / symbol / bool values).
	// A Logic expression is bound to a fresh local first.
	PrintE struct {
		E    Expr
		Show bool
		Note string // not printed: the reference interpreter records it as the origin of the trace line
	}
	// PrintThrown is println("THROWN " + v.inspect) for a variable bound by a typed catch-all.
	PrintThrown struct{ Var string }
	Return      struct{ E Expr }
	// Break leaves the innermost loop (Label == "") or the loop with that label; E is the loop's value (optional).
	Break struct {
		Label string
		E     Expr
	}
	Continue struct{ Label string }
	// Throw is `throw :sym` (a checked throw: the enclosing function must declare it or a do must catch it).
	Throw struct{ Sym string }
	// Loop is a bounded loop. The hidden counter Ctr is declared (= 0) immediately before the loop.
	//   While == false:  [$Label:] loop;  if Ctr >= Limit then break;  Ctr += 1;  Body;  end
	//   While == true:   [$Label:] while Ctr < Limit;  Ctr += 1;  Body;  end
	// Bind (loop form only) declares a variable holding the loop's value (`break v` → v, `break` → nil).
	Loop struct {
		While bool
		Label string
		Ctr   string
		Limit int
		Body  []Stmt
		Bind  string
	}
	// ForIn is `for v in From...To` (closed range); v is a fresh read-only variable per iteration.
	ForIn struct {
		Var      string
		From, To int
		Body     []Stmt
	}
	// Do is do … catch … finally … end. Finally == nil: no finally clause.
	Do struct {
		Body    []Stmt
		Catches []Catch
		Finally []Stmt
	}
	// Defer is `defer println("tag")`: registered when executed, run LIFO when the activation completes.
	Defer struct{ Tag string }
	If    struct {
		C          Expr
		Then, Else []Stmt
	}
	// Push is `list << e`.
	Push struct {
		List string
		E    Expr
	}
)

// Catch: Sym != "" → `catch :sym`; otherwise a catch-all: Typed → `catch ::Std::Symbol() as Bind`, else `catch Bind`.
type Catch struct {
	Sym   string
	Bind  string
	Typed bool
	Body  []Stmt
}

func (*Let) isStmt()         {}
func (*ExprS) isStmt()       {}
func (*Print) isStmt()       {}
func (*PrintE) isStmt()      {}
func (*PrintThrown) isStmt() {}
func (*Return) isStmt()      {}
func (*Break) isStmt()       {}
func (*Continue) isStmt()    {}
func (*Throw) isStmt()       {}
func (*Loop) isStmt()        {}
func (*ForIn) isStmt()       {}
func (*Do) isStmt()          {}
func (*Defer) isStmt()       {}
func (*If) isStmt()          {}
func (*Push) isStmt()        {}

// ---------------------------------------------------------------------------------------------
// Functions and programs

type Param struct {
	Name string
	T    *Type
}

// Def is a method definition `def Name(params): Ret [! :a | :b]`. Its value is Res when the body falls through.
type Def struct {
	Name   string
	Params []Param
	Ret    *Type
	Throws []string
	Body   []Stmt
	Res    Expr
}

// Program: method definitions (printed in the given order: callee first!) and top-level statements.
type Program struct {
	Defs []*Def
	Main []Stmt
}

// GuardedCall builds the standard wrapper around a call of a function that may throw:
//
//	do
//	  v := f(args)
//	  println(v)
//	catch ::Std::Symbol() as e
//	  println("THROWN " + e.inspect)
//	end
func GuardedCall(fn string, args ...Expr) Stmt {
	return &Do{
		Body: []Stmt{
			&Let{Name: "v", E: &Call{Fn: fn, Args: args}},
			&PrintE{E: &Var{Name: "v"}},
		},
		Catches: []Catch{{Bind: "e", Typed: true, Body: []Stmt{&PrintThrown{Var: "e"}}}},
	}
}

// Escapes returns the set of symbols that may escape the statement list uncaught (a conservative,
// purely syntactic analysis mirroring what a checker of checked throws has to assume). callThrows gives
// the declared throws of methods; closure calls contribute the Throws of the closure's static type
// when known through fnThrows (may be nil).
func Escapes(body []Stmt, callThrows func(fn string) []string) []string {
	set := map[string]bool{}
	escStmts(body, callThrows, set)
	var out []string
	for _, s := range []string{"a", "b", "c", "d"} {
		if set[s] {
			out = append(out, s)
			delete(set, s)
		}
	}
	// any other names in a fixed order
	var rest []string
	for s := range set {
		rest = append(rest, s)
	}
	sortStrings(rest)
	return append(out, rest...)
}

func sortStrings(a []string) {
	for i := 1; i < len(a); i++ {
		for j := i; j > 0 && a[j] < a[j-1]; j-- {
			a[j], a[j-1] = a[j-1], a[j]
		}
	}
}

func escStmts(body []Stmt, ct func(string) []string, set map[string]bool) {
	for _, s := range body {
		escStmt(s, ct, set)
	}
}

func escStmt(s Stmt, ct func(string) []string, set map[string]bool) {
	switch s := s.(type) {
	case *Let:
		escExpr(s.E, ct, set)
	case *ExprS:
		escExpr(s.E, ct, set)
	case *PrintE:
		escExpr(s.E, ct, set)
	case *Return:
		escExpr(s.E, ct, set)
	case *Break:
		if s.E != nil {
			escExpr(s.E, ct, set)
		}
	case *Throw:
		set[s.Sym] = true
	case *Loop:
		escStmts(s.Body, ct, set)
	case *ForIn:
		escStmts(s.Body, ct, set)
	case *If:
		escExpr(s.C, ct, set)
		escStmts(s.Then, ct, set)
		escStmts(s.Else, ct, set)
	case *Push:
		escExpr(s.E, ct, set)
	case *Do:
		inner := map[string]bool{}
		escStmts(s.Body, ct, inner)
		for _, c := range s.Catches {
			if c.Sym == "" {
				inner = map[string]bool{}
			} else {
				delete(inner, c.Sym)
			}
		}
		for k := range inner {
			set[k] = true
		}
		for _, c := range s.Catches {
			escStmts(c.Body, ct, set)
		}
		escStmts(s.Finally, ct, set)
	}
}

func escExpr(e Expr, ct func(string) []string, set map[string]bool) {
	switch e := e.(type) {
	case *Assign:
		escExpr(e.E, ct, set)
	case *Bin:
		escExpr(e.L, ct, set)
		escExpr(e.R, ct, set)
	case *Call:
		for _, a := range e.Args {
			escExpr(a, ct, set)
		}
		if ct != nil {
			for _, s := range ct(e.Fn) {
				set[s] = true
			}
		}
	case *CallFn:
		escExpr(e.F, ct, set)
		for _, a := range e.Args {
			escExpr(a, ct, set)
		}
		if f, ok := e.F.(*Fn); ok {
			for _, s := range f.Throws {
				set[s] = true
			}
		}
	case *Logic:
		escExpr(e.L, ct, set)
		escExpr(e.R, ct, set)
	case *IfE:
		escExpr(e.C, ct, set)
		escExpr(e.T, ct, set)
		escExpr(e.E, ct, set)
	case *Mark:
		escExpr(e.E, ct, set)
	case *Block:
		escStmts(e.Body, ct, set)
		escExpr(e.Res, ct, set)
	case *ListLit:
		for _, a := range e.Elems {
			escExpr(a, ct, set)
		}
	case *Index:
		escExpr(e.L, ct, set)
	}
}
