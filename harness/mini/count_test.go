package mini

import "testing"

func TestCountCF(t *testing.T) {
	count := func(o CFOpts) int {
		n := 0
		EnumCF(o, func(*CFCase) bool { n++; return true })
		return n
	}
	t.Log("full 0..2 cond", count(CFOpts{MinDepth: 0, MaxDepth: 2, CondExits: true}))
	t.Log("full 3 cond", count(CFOpts{MinDepth: 3, MaxDepth: 3, CondExits: true}))
	t.Log("core 3 cond", count(CFOpts{MinDepth: 3, MaxDepth: 3, CondExits: true, Variants: CFCore}))
	t.Log("core 4 cond", count(CFOpts{MinDepth: 4, MaxDepth: 4, CondExits: true, Variants: CFCore}))
	t.Log("core 4 nocond", count(CFOpts{MinDepth: 4, MaxDepth: 4, Variants: CFCore}))
	t.Log("param 0..2", count(CFOpts{MinDepth: 0, MaxDepth: 2, Param: true}))
}
