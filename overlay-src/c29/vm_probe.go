// Overlay-only file of package vm used by check C29 (mapped to /repo/vm/verif_probe.go by
// /verif/bin/prebuild-c29). It contains no logic of the VM: it records, for every instruction the
// dispatch loop is about to execute, which function and offset it is and how deep the operand stack of
// the current frame is (sp - fp, in slots).
package vm

import (
	"sync"
	"sync/atomic"
)

// VerifProbeEvent is one observation made at the top of the dispatch loop, before the opcode is read.
type VerifProbeEvent struct {
	Thread int64             // Thread.ID
	Run    int64             // identifies the invocation of (*Thread).run() the instruction executes in
	Fn     *BytecodeFunction // the function being executed
	PC     int32             // offset of the instruction in Fn.Instructions
	Depth  int32             // sp - fp in value slots (self, parameters, locals and operands)
	Level  int32             // index of the current call frame
	FP     int32             // fp as an index into the value stack
}

var (
	verifProbeOn atomic.Bool
	verifRunSeq  atomic.Int64
	verifMu      sync.Mutex
	verifEvents  []VerifProbeEvent
	verifMax     int
	verifDropped int
)

// VerifProbeStart begins recording (at most max events; further events are counted as dropped).
func VerifProbeStart(max int) {
	verifMu.Lock()
	verifEvents = make([]VerifProbeEvent, 0, 1024)
	verifMax = max
	verifDropped = 0
	verifMu.Unlock()
	verifProbeOn.Store(true)
}

// VerifProbeStop ends recording and returns the events in the order they were recorded (the order is
// the program order within each thread).
func VerifProbeStop() (events []VerifProbeEvent, dropped int) {
	verifProbeOn.Store(false)
	verifMu.Lock()
	events, dropped = verifEvents, verifDropped
	verifEvents = nil
	verifMu.Unlock()
	return
}

func verifRunEnter() int64 { return verifRunSeq.Add(1) }

func verifDepthProbe(vm *Thread, run int64) {
	if !verifProbeOn.Load() {
		return
	}
	ev := VerifProbeEvent{
		Thread: vm.ID,
		Run:    run,
		Fn:     vm.bytecode,
		PC:     int32(vm.ipOffset()),
		Depth:  int32(vm.spOffset() - vm.fpOffset()),
		Level:  int32(vm.cfpOffset()),
		FP:     int32(vm.fpOffset()),
	}
	verifMu.Lock()
	if verifProbeOn.Load() {
		if len(verifEvents) < verifMax {
			verifEvents = append(verifEvents, ev)
		} else {
			verifDropped++
		}
	}
	verifMu.Unlock()
}
